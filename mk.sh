#!/bin/sh
# builds the check driver from files on disk only (offline)
set -e
export GOFLAGS=-mod=mod GOPROXY=off GOSUMDB=off GOTOOLCHAIN=local
cd /verif/tools
mkdir -p /verif/bin
go build -o /verif/bin/vcheck ./cmd/vcheck
go build -o /verif/bin/simgen ./cmd/simgen
