#!/bin/sh
# builds the check driver from files on disk only (offline), then warms the Go build cache
# for the plain and the race-detector harness builds so that the first check is not slow
set -e
export GOFLAGS=-mod=mod GOPROXY=off GOSUMDB=off GOTOOLCHAIN=local
cd /verif/tools
mkdir -p /verif/bin
go build -o /verif/bin/vcheck ./cmd/vcheck
go build -o /verif/bin/simgen ./cmd/simgen
if [ "$1" != "nowarm" ]; then
  /verif/bin/vcheck -property C09 -runs 2 -noevidence -noshrink >/dev/null 2>&1 || true
fi
