package scen

import (
	"bytes"
	"fmt"
	"strings"
	"time"

	"simh/codec"
	"simh/env"
	"simh/sim"
)

func init() {
	Register("c06", runC06)
	Register("c07", runC07)
}

// biasedSize draws a payload size around the boundaries the property names.
func biasedSize(c *Ctx, max int) int {
	var n int
	switch c.T.Weighted(6, 3, 2, 1) {
	case 0:
		n = 1 + c.T.Choose(600)
	case 1:
		n = []int{0, 1, 2, 4085, 4086, 4087, 4095, 4096, 4097, 8182, 8183, 8192, 8193}[c.T.Choose(13)]
	case 2:
		n = []int{16383, 16384, 32768, 65534, 65535}[c.T.Choose(5)]
	default:
		n = c.T.Choose(65536)
	}
	if n > max {
		n = max
	}
	return n
}

// installStalls registers fault actors that stall gateway-side writes or deliveries for a
// number of scheduler steps (slow client, slow host, delayed delivery to the gateway).
func installStalls(c *Ctx, n int) {
	type stall struct {
		at, dur int
		kind    int
		pick    int
		end     *sim.End
		done    bool
	}
	var sts []*stall
	for i := 0; i < n; i++ {
		sts = append(sts, &stall{at: 8 + c.T.Choose(90), dur: 1 + c.T.Choose(40), kind: c.T.Choose(3), pick: c.T.Choose(1 << 16)})
	}
	for i, st := range sts {
		st := st
		c.S.AddActor(fmt.Sprintf("F stall %d on", i), func() bool { return !c.S.Draining && st.end == nil && !st.done && c.S.Steps >= st.at }, func() {
			// gateway-side ends: accepted client connections (name') and dialed host connections
			var cands []*sim.End
			for _, e := range c.S.Ends() {
				if e.Auto || e.Owned || e.Closed {
					continue
				}
				cands = append(cands, e)
			}
			if len(cands) == 0 {
				st.done = true
				return
			}
			e := cands[st.pick%len(cands)]
			st.end = e
			switch st.kind {
			case 0:
				e.HoldWrites = true
				c.S.Count("fault.stall.write")
			case 1:
				e.HoldDeliver = true
				c.S.Count("fault.stall.read")
			default:
				e.Peer.HoldDeliver = true // the environment side reads slowly
				c.S.Count("fault.stall.peer_read")
			}
			c.S.Note("stall kind=%d on %s for %d steps", st.kind, e.Name, st.dur)
		})
		// a stall can also last in time: the peer is gone for 3-20 s while the write is held
		long := c.T.Bool(1, 4)
		c.S.AddActor(fmt.Sprintf("F stall %d lasts", i), func() bool {
			// (not while a connection attempt of the gateway awaits its answer: that would be a
			// host that takes seconds to accept, a different fault)
			return long && st.end != nil && !st.done && !c.S.Draining && c.S.PendingDials() == 0
		}, func() {
			long = false
			c.S.Advance(time.Duration(3+c.T.Choose(18)) * time.Second)
			c.S.Count("fault.stall.seconds")
		})
		c.S.AddActor(fmt.Sprintf("F stall %d off", i), func() bool { return st.end != nil && !st.done && c.S.Steps >= st.at+st.dur }, func() {
			st.end.HoldWrites, st.end.HoldDeliver, st.end.Peer.HoldDeliver = false, false, false
			st.done = true
		})
	}
}

// StreamVerdict is the outcome of the byte-stream oracle for one tunnel.
type StreamVerdict struct {
	HostGot, HostWant     int
	ClientGot, ClientWant int
	Complete              bool
}

// CheckStreams is the C06 oracle: host-received bytes and client-received DATA payloads
// against the streams the model says must flow.  wantComplete demands equality (after a
// drain, when the tunnel was not ended by the scenario).
func CheckStreams(c *Ctx, t *Tun, v *TunVerdict, oracle string, wantComplete bool) *StreamVerdict {
	p, cl := t.Plan, t.Client
	sv := &StreamVerdict{}
	var hostGot, hostSent []byte
	for _, hc := range t.HostConns() {
		hostGot = append(hostGot, hc.Recv...)
		hostSent = append(hostSent, hc.Sent()...)
	}
	var clientGot []byte
	for _, e := range cl.Events {
		if e.Kind == "pkt" && e.Pkt.Type == codec.PktData {
			clientGot = append(clientGot, e.Pkt.Payload...)
		}
	}
	sv.HostGot, sv.HostWant, sv.ClientGot, sv.ClientWant = len(hostGot), len(v.ExpectHost), len(clientGot), len(hostSent)
	sig := func(base string) string {
		// signature from the input shape, so that known findings stay specific
		maxPkt, over := 0, false
		for i, pk := range p.Pkts {
			if i >= len(cl.Sent) {
				break
			}
			if len(pk.Bytes) > maxPkt {
				maxPkt = len(pk.Bytes)
			}
			if pk.Kind == KData && pk.OverDeclared {
				over = true
			}
		}
		s := base
		if over {
			s += ":declared>carried"
		}
		if p.Transport == "legacy" && maxPkt > 8192 {
			s += ":legacy-packet>8192"
		}
		if p.Stream {
			s += ":resegmented"
		}
		return s
	}
	if !bytes.HasPrefix(v.ExpectHost, hostGot) {
		// alternatives for an over-declared packet: dropped, or the tunnel ended there
		if alt, ok := altHostStream(p, cl, hostGot); !ok {
			i := firstDiff(v.ExpectHost, hostGot)
			failf(c, oracle, sig("host-stream"), "%s/%s: host received %d bytes that are not a prefix of the %d declared payload bytes (first difference at offset %d: got %s want %s)",
				p.Name, p.Transport, len(hostGot), len(v.ExpectHost), i, short(hostGot[i:]), short(tailFrom(v.ExpectHost, i)))
			return sv
		} else {
			v.ExpectHost = alt
		}
	}
	if !bytes.HasPrefix(hostSent, clientGot) {
		i := firstDiff(hostSent, clientGot)
		failf(c, oracle, sig("client-stream"), "%s/%s: DATA payloads received by the client (%d bytes) are not a prefix of the host's stream (%d bytes); first difference at offset %d: got %s want %s",
			p.Name, p.Transport, len(clientGot), len(hostSent), i, short(clientGot[i:]), short(tailFrom(hostSent, i)))
		return sv
	}
	hostEnded := ""
	for _, hc := range t.HostConns() {
		if hc.Ended != "" {
			hostEnded = hc.Ended
		}
	}
	if hostEnded == "rst" {
		// a reset discards what is in flight in both directions: prefixes only
		wantComplete = false
	}
	if wantComplete {
		// (a host that closed after its script no longer reads what the client still sends)
		if len(hostGot) != len(v.ExpectHost) && hostEnded == "" {
			failf(c, oracle, sig("host-stream-incomplete"), "%s/%s: after the drain the host has %d of %d bytes of the client's declared payloads (sent=%s)", p.Name, p.Transport, len(hostGot), len(v.ExpectHost), planString(p, len(cl.Sent)))
			return sv
		}
		// (a client that ended its request body ended the tunnel: what the host still had to
		// say need not arrive)
		clientClosed := len(p.Pkts) > 0 && p.Pkts[len(p.Pkts)-1].Kind == KClose
		if len(clientGot) != len(hostSent) && p.EndBody == 0 && !clientClosed {
			failf(c, oracle, sig("client-stream-incomplete"), "%s/%s: after the drain the client has %d of the %d bytes the host produced", p.Name, p.Transport, len(clientGot), len(hostSent))
			return sv
		}
		sv.Complete = true
	}
	return sv
}

func tailFrom(b []byte, i int) []byte {
	if i >= len(b) {
		return nil
	}
	return b[i:]
}

func firstDiff(a, b []byte) int {
	n := min(len(a), len(b))
	for i := 0; i < n; i++ {
		if a[i] != b[i] {
			return i
		}
	}
	return n
}

// altHostStream accepts the legal alternatives for DATA packets whose declared length
// exceeds the bytes carried: the packet may be dropped, or the tunnel may end there.
func altHostStream(p *TunPlan, cl *env.TunClient, got []byte) ([]byte, bool) {
	var want []byte
	open := false
	for i, pk := range p.Pkts {
		if i >= len(cl.Sent) {
			break
		}
		if pk.Kind == KChannelCreate && pk.Verdict == HostAllowed {
			open = true
		}
		if pk.Kind != KData || !open {
			continue
		}
		if pk.OverDeclared {
			// ended here?
			if bytes.Equal(want, got) {
				return want, true
			}
			// dropped: skip
			continue
		}
		want = append(want, pk.Payload...)
	}
	return want, bytes.HasPrefix(want, got)
}

// buildStreamPlan fills a plan with a valid setup followed by DATA packets and a host script.
func buildStreamPlan(c *Ctx, tw *TunWorld, p *TunPlan, nData, nHost int, maxClient, maxHost int, lies bool) string {
	h := IdealHistory(c, tw, p, 0, nil, false)
	tag := byte(0x40 + len(p.Name)*7)
	if len(p.Name) > 1 {
		tag = byte(0x40) + p.Name[len(p.Name)-1]*3
	}
	maxLegacy := maxClient
	for i := 0; i < nData; i++ {
		n := biasedSize(c, maxLegacy)
		payload := c.T.Bytes(n, tag+byte(i))
		pk := PData(payload)
		if lies && c.T.Bool(1, 6) {
			if c.T.Bool(1, 2) && n > 0 {
				// declared shorter than carried: only the declared part is the payload
				d := c.T.Choose(n)
				pk = CPkt{Kind: KData, Payload: payload[:d], Bytes: codec.Data(payload, d)}
			} else if n < 65000 {
				d := n + 1 + c.T.Choose(300)
				pk = CPkt{Kind: KData, Payload: payload, OverDeclared: true, Bytes: codec.Data(payload, d)}
			}
		}
		h = append(h, pk)
	}
	p.Pkts = h
	p.HostScript = nil
	for i := 0; i < nHost; i++ {
		p.HostScript = append(p.HostScript, c.T.Bytes(1+biasedSize(c, maxHost), tag^0xff+byte(i)))
	}
	return fmt.Sprintf("%s/%s client-data=%v host-writes=%v", p.Name, p.Transport, dataSizes(p), scriptSizes(p))
}

func dataSizes(p *TunPlan) []string {
	var o []string
	for _, pk := range p.Pkts {
		if pk.Kind == KData {
			s := fmt.Sprint(len(pk.Payload))
			if pk.OverDeclared {
				s += "(over-declared)"
			} else if len(pk.Bytes)-10 != len(pk.Payload) {
				s += fmt.Sprintf("(of %d carried)", len(pk.Bytes)-10)
			}
			o = append(o, s)
		}
	}
	return o
}

func scriptSizes(p *TunPlan) []int {
	var o []int
	for _, b := range p.HostScript {
		o = append(o, len(b))
	}
	return o
}

// runC06: one tunnel, two byte streams, stalls and arbitrary interleaving.
func runC06(c *Ctx) {
	tr := []string{"ws", "legacy"}
	if c.Arg["transport"] != "" {
		tr = []string{c.Arg["transport"]}
	}
	// the streams of the tunnel under observation are what is checked; in a third of the runs
	// another tunnel carries traffic of its own at the same time
	nt := 1 + c.T.Weighted(2, 1)
	tw := PlanTunnels(c, TunOpts{N: nt, Transports: tr})
	if !BootTun(c, tw, false) {
		return
	}
	p := tw.Plans[0]
	big := c.Arg["big"] == "1"
	maxClient := 65535
	_ = big
	nd, nh := 1+c.T.Choose(12), 1+c.T.Choose(12)
	if c.Tier == "thorough" && c.T.Bool(1, 20) {
		nd, nh = 20+c.T.Choose(40), 20+c.T.Choose(40)
	}
	d := buildStreamPlan(c, tw, p, nd, nh, maxClient, 20000, c.Arg["lies"] != "0")
	ns := c.T.Weighted(2, 3, 2, 1)
	p.Stream = c.T.Bool(1, 2) // TCP re-segmentation of the client's writes
	if c.T.Bool(1, 3) {
		// a host that produces bursts larger than any 16-bit length, and whose writes the
		// network may coalesce before the gateway reads them
		for i := 0; i < 1+c.T.Choose(3); i++ {
			p.HostScript = append(p.HostScript, c.T.Bytes([]int{65535, 65536, 65537, 100000, 131072, 200000}[c.T.Choose(6)], 0x99+byte(i)))
		}
	}
	hostStream := c.T.Bool(1, 2)
	c.S.PartialWrites = c.T.Bool(1, 3) // socket buffers that take only part of a write
	// the host may end the connection itself: close after its last write (everything it wrote
	// must still reach the client) or reset in the middle of its script
	hostEnd := c.T.Weighted(5, 1, 1)
	// a host that is slow to take data (its connection's send side is full for 2-10 s) while
	// the client sends everything and then closes the channel: nothing the client sent before
	// its close may be lost
	slowHost := hostEnd == 0 && c.T.Bool(1, 5)
	if slowHost {
		p.Pkts = append(p.Pkts, PClose())
		d += " slow-host-then-client-closes"
	}
	if p.Transport == "ws" && !slowHost && c.T.Bool(1, 6) {
		// everything the client has to say in ONE websocket message (may exceed 128 KiB)
		tot := 0
		for _, pk := range p.Pkts {
			tot += len(pk.Bytes)
		}
		p.Segs = [][2]int{{0, tot}}
		d += fmt.Sprintf(" all-in-one-message(%d bytes)", tot)
		if tot > 131072 {
			c.S.Count("probe.ws_message_over_128k")
		}
	}
	if p.Segs == nil && len(p.Pkts) > 6 && c.T.Bool(1, 8) {
		// a session that outlives every cache lifetime inside the gateway: the client is silent
		// on its open channel for 6-16 minutes, then carries on
		idx := 5 + c.T.Choose(len(p.Pkts)-5)
		q := time.Duration(6+c.T.Choose(11)) * time.Minute
		p.QuietBefore = map[int]time.Duration{idx: q}
		p.QuietGate = OthersSetUp(&tw.Tuns, p)
		d += fmt.Sprintf(" silent-for-%v-before-packet-%d", q, idx)
		c.S.Count("probe.session_longer_than_cache_lifetimes")
	}
	if nt > 1 {
		d += " || alongside " + buildStreamPlan(c, tw, tw.Plans[1], 1+c.T.Choose(8), 1+c.T.Choose(8), 9000, 9000, false)
		c.S.Count("probe.second_tunnel_alongside")
	}
	installStalls(c, ns)
	tw.Tuns = StartTunnels(c, tw.Plans)
	for _, h := range tw.Tuns[0].Hosts {
		h.L.StreamBack = hostStream
		switch hostEnd {
		case 1:
			h.CloseAfterScript = true
			d += " host-closes-after-script"
		case 2:
			h.ResetAfter = c.T.Choose(len(h.Script) + 1)
			d += fmt.Sprintf(" host-resets-after-%d-writes", h.ResetAfter)
		}
	}
	if slowHost {
		t0 := tw.Tuns[0]
		var held []*sim.End
		released := false
		c.S.AddActor("F slow host on", func() bool {
			if released || len(held) > 0 {
				return false
			}
			for _, hc := range t0.HostConns() {
				if hc.End != nil && hc.End.Peer != nil {
					return true
				}
			}
			return false
		}, func() {
			for _, hc := range t0.HostConns() {
				hc.End.Peer.HoldWrites = true
				held = append(held, hc.End.Peer)
			}
			c.S.Count("fault.host.slow_to_read")
		})
		c.S.AddActor("F slow host off", func() bool { return len(held) > 0 && !released && t0.SentAll() && c.S.PendingDials() == 0 }, func() {
			released = true
			c.S.Advance(time.Duration(2+c.T.Choose(9)) * time.Second)
			for _, e := range held {
				e.HoldWrites = false
			}
		})
	}
	RunTunnels(c, tw.Tuns, 40000)
	t := tw.Tuns[0]
	for _, x := range tw.Tuns {
		if x.Client.Failed != "" || x.Err != "" {
			c.Infra("transport setup failed: %s %s", x.Client.Failed, x.Err)
			return
		}
	}
	v := CheckTunnel(c, t, tw.MC, "C06")
	if vi := c.S.Viol; vi != nil && vi.Oracle == "C16" && (vi.Sig == "valid-step-unanswered" || vi.Sig == "valid-step-refused") {
		// the history of this scenario is a valid one: if the gateway does not take it, the
		// client's stream is not carried to the host
		vi.Oracle, vi.Sig = "C06", "stream-not-carried:"+vi.Sig
		vi.Msg = d + ": " + vi.Msg
	}
	if vi := c.S.Viol; vi != nil && vi.Oracle == "C09" && vi.Sig == "torn-frame" {
		// a stream the client cannot frame any more: what it was sent is not the host's stream
		vi.Oracle = "C06"
	}
	if vi := c.S.Viol; vi != nil && vi.Oracle == "C16" && strings.HasPrefix(vi.Sig, "malformed:DATA") {
		// "every data packet sent to the client is well-formed" is a clause of C06 itself
		vi.Oracle = "C06"
	}
	var sv *StreamVerdict
	if c.S.Viol == nil {
		sv = CheckStreams(c, t, v, "C06", true)
	} else if c.S.Viol.Sig == "host-stream-mismatch" || c.S.Viol.Sig == "relay-unauthorised" {
		c.S.Viol = nil
		sv = CheckStreams(c, t, v, "C06", true)
	}
	if sv != nil {
		c.Res.Reach = sv.HostGot > 0 && sv.ClientGot > 0 && (c.S.Stats["fault.stall.write"]+c.S.Stats["fault.stall.read"]+c.S.Stats["fault.stall.peer_read"] > 0)
		c.Samplef("%s stalls=%d => host got %d/%d, client got %d/%d, complete=%v", d, ns, sv.HostGot, sv.HostWant, sv.ClientGot, sv.ClientWant, sv.Complete)
	}
}

// runC07: N concurrent tunnels with tagged streams; per-tunnel C01 + C06 oracles, no
// cross-talk, legacy pairing by connection id.
func runC07(c *Ctx) {
	maxN := 8
	if c.Tier == "thorough" {
		maxN = 64
	}
	n := 2 + c.T.Choose(maxN-1)
	if c.T.Bool(2, 3) && n > 6 {
		n = 2 + c.T.Choose(5)
	}
	idf := c.T.Weighted(3, 1, 2, 1, 2)
	trs := []string{"ws", "legacy"}
	if c.T.Bool(1, 50) {
		// a terminal-server farm's worth of clients, all on the legacy transport, at once
		n = 34 + c.T.Choose(14)
		trs = []string{"legacy"}
		c.S.Count("probe.dozens_of_legacy_tunnels_at_once")
	}
	tw := PlanTunnels(c, TunOpts{N: n, Transports: trs, IDFormat: idf, ExtraHosts: []string{"u-nobody.test:3389"}})
	// two tunnels may target the same machine on different ports, one of which is down
	samePair := [2]int{-1, -1}
	// (at most one of the special situations below per run)
	special := c.T.Weighted(5, 2, 2, 2, 1, 1)
	if special == 4 && n >= 2 {
		// users authenticated at HTTP level (NTLM) whose names and connection ids run into each
		// other when written one after the other: ("ops","7f3e-1") and ("ops7","f3e-1")
		tw.NTLM = true
		a, b := tw.Plans[0], tw.Plans[1]
		a.Transport, b.Transport = "legacy", "legacy"
		a.User, b.User = "ops", "ops7"
		tail := fmt.Sprintf("f3e-%d", c.Res.Seed&0xffff)
		a.ConnID, b.ConnID = "7"+tail, tail
	}
	intruder := -1
	if special == 5 {
		// a legacy client that sends its RDG_IN_DATA request before its RDG_OUT_DATA request
		// (it is refused); whatever becomes of it, the other tunnels are not its business
		for i, p := range tw.Plans {
			if p.Transport == "legacy" {
				intruder = i
				p.INFirst = true
				break
			}
		}
	}
	if special == 1 {
		i := c.T.Choose(n)
		j := (i + 1 + c.T.Choose(n-1)) % n
		a, b := tw.Plans[i], tw.Plans[j]
		name, _ := splitHostPort(a.UnreachHost)
		old := b.AllowedHost
		b.AllowedHost = name + ":3390"
		for k, h := range tw.Cfg.Hosts {
			if h == old {
				tw.Cfg.Hosts[k] = b.AllowedHost
			}
		}
		samePair = [2]int{i, j}
		a.ForeignHosts = map[string]bool{b.AllowedHost: true}
	}
	if !BootTun(c, tw, false) {
		return
	}
	var ds []string
	ds = append(ds, fmt.Sprintf("id-format=%d", idf))
	if special == 0 && c.T.Bool(1, 5) {
		// a legacy client whose outgoing connection is lost right after it was accepted retries
		// with the same connection id before it opens its incoming connection
		for _, p := range tw.Plans {
			if p.Transport == "legacy" && !p.INFirst {
				p.LostOut = true
				ds = append(ds, p.Name+":first-OUT-connection-lost-then-retried")
				break
			}
		}
	}
	if c.T.Bool(1, 3) {
		// one user, signed in once (one access token), connects to two different hosts from
		// the same machine: two tunnels, each bound to the host of its own token
		i := c.T.Choose(n)
		j := (i + 1 + c.T.Choose(n-1)) % n
		a, b := tw.Plans[i], tw.Plans[j]
		b.User, b.AccessToken = a.User, a.AccessToken
		b.From = fmt.Sprintf("%s:%d", clientIP(a.From), 45000+j)
		ds = append(ds, fmt.Sprintf("%s and %s belong to one user", a.Name, b.Name))
		c.S.Count("probe.one_user_two_hosts")
	}
	for _, p := range tw.Plans {
		ds = append(ds, buildStreamPlan(c, tw, p, c.T.Choose(5), c.T.Choose(5), 3000, 6000, false))
		if c.T.Bool(1, 5) {
			// some tunnels misbehave: near-valid histories from the C01 generator
			p.Pkts, _ = mutateHistory(c, tw, p, p.Pkts)
		}
		if c.T.Bool(1, 6) {
			p.Pkts = append(p.Pkts, PClose())
		}
		if c.T.Bool(1, 8) {
			p.CloseAfter = c.T.Choose(len(p.Pkts) + 1)
			p.CloseReset = c.T.Bool(1, 2)
		}
	}
	if samePair[0] >= 0 {
		// tunnel a asks for the port that is down first; b (same machine, healthy port) creates
		// its channel afterwards
		a, b := tw.Plans[samePair[0]], tw.Plans[samePair[1]]
		ha := IdealHistory(c, tw, a, 0, nil, false)
		ha[3] = PChannel(a.UnreachHost, HostUnreachable)
		if tw.MC.TokenAuth {
			ha[1] = PTunnelCreate(ValidCookie(c, tw, a, a.UnreachHost), true) // a token for that host
		}
		a.Pkts = ha
		a.CloseAfter = -1
		b.StartGate = func() bool {
			for _, t := range tw.Tuns {
				if t.Plan == a {
					return len(t.Client.Packets()) >= 4 || t.Client.Ended() || t.Client.Failed != ""
				}
			}
			return true
		}
		ds = append(ds, fmt.Sprintf("%s asks for %s (down) before %s asks for %s", a.Name, a.UnreachHost, b.Name, b.AllowedHost))
		c.S.Count("probe.same_machine_other_port")
	}
	// a legacy tunnel that is slow between its two requests while another tunnel ends
	lateIdx, enderIdx := -1, -1
	if special == 2 {
		for i, p := range tw.Plans {
			if p.Transport == "legacy" && !p.INFirst && lateIdx < 0 && p.StartGate == nil {
				lateIdx = i
			}
		}
		for i, p := range tw.Plans {
			if i != lateIdx && p.Transport == "legacy" && p.StartGate == nil && enderIdx < 0 {
				enderIdx = i
			}
		}
		if lateIdx >= 0 && enderIdx >= 0 {
			late, ender := tw.Plans[lateIdx], tw.Plans[enderIdx]
			if ender.CloseAfter < 0 {
				ender.Pkts = append(ender.Pkts, PClose())
			}
			late.SecondGate = func() bool {
				t := tw.Tuns[enderIdx]
				return t.closed || t.Client.Ended() || t.Client.Failed != "" || t.Err != ""
			}
			ds = append(ds, fmt.Sprintf("%s sends its second request only after %s has ended", late.Name, ender.Name))
			c.S.Count("probe.half_open_while_another_ends")
		}
	}
	silentIdx, silentPkt := -1, 0
	if special == 0 && c.T.Bool(1, 8) {
		// one legacy session outlives every cache lifetime inside the gateway: its client is silent
		// for 6-16 minutes on the open channel and then carries on (the others come and go)
		for i, p := range tw.Plans {
			if p.Transport == "legacy" && !p.INFirst && !p.LostOut && p.Segs == nil && len(p.Pkts) > 6 && p.CloseAfter < 0 {
				idx := 5 + c.T.Choose(len(p.Pkts)-5)
				silentIdx, silentPkt = i, idx
				q := time.Duration(6+c.T.Choose(11)) * time.Minute
				p.QuietBefore = map[int]time.Duration{idx: q}
				p.QuietGate = OthersSetUp(&tw.Tuns, p)
				ds = append(ds, fmt.Sprintf("%s:silent-for-%v-before-packet-%d", p.Name, q, idx))
				c.S.Count("probe.session_longer_than_cache_lifetimes")
				break
			}
		}
	}
	if special == 0 && tw.MC.TokenAuth && c.T.Bool(1, 8) {
		// somebody else keeps presenting a cookie whose access token the provider has revoked (a
		// healthy provider says 401 each time); that is his problem alone
		at := c.W.IdP.IssueAccessToken("leaver")
		c.W.IdP.Tokens[at].Revoked = true
		nb := 3 + c.T.Choose(4)
		for k := 0; k < nb; k++ {
			bp := &TunPlan{Name: fmt.Sprintf("bad%d", k), Transport: "ws", From: fmt.Sprintf("10.9.9.9:%d", 41000+k), ConnID: fmt.Sprintf("{BAD-%d-%d}", c.Res.Seed&0xffff, k), CloseAfter: -1}
			bp.Pkts = []CPkt{PHandshake(tw.MC.ServerCaps, 1, 0), PTunnelCreate(MintCookie(c, tw.Cfg.PAASigningKey, "leaver", tw.Plans[0].AllowedHost, "10.9.9.9", at, 5*time.Minute), false)}
			bt := StartTunnels(c, []*TunPlan{bp})
			c.S.Run(func() bool {
				return bt[0].Client.Failed != "" || bt[0].Err != "" || len(bt[0].Client.Packets()) >= 2 || bt[0].Client.Ended()
			}, 3000, 10*time.Second)
			bt[0].Client.CloseAll(false)
		}
		c.S.Run(nil, 100, time.Second)
		ds = append(ds, fmt.Sprintf("after-%d-tunnel-creates-with-a-revoked-token-by-someone-else", nb))
		c.S.Count("probe.revoked_token_presented_repeatedly_by_another_client")
	}
	if special == 0 && c.T.Bool(1, 8) {
		// somebody else keeps asking for a machine that is down (17-40 refused connection
		// attempts in the life of this gateway process): whatever the gateway keeps per attempt
		// (slots, counters, breakers) is his business, the run's tunnels to healthy hosts go on
		down := "u-nobody.test:3389" // an allowed machine of nobody in this run; nothing listens there
		nb := 17 + c.T.Choose(24)
		done := 0
		for k := 0; k < nb; k++ {
			bp := &TunPlan{Name: fmt.Sprintf("dn%d", k), Transport: "ws", From: fmt.Sprintf("10.9.9.8:%d", 42000+k), ConnID: fmt.Sprintf("{DOWN-%d-%d}", c.Res.Seed&0xffff, k), User: "nightshift", CloseAfter: -1} // no AllowedHost: StartTunnels would start a listener for it
			bp.AccessToken = c.W.IdP.IssueAccessToken(bp.User)
			bp.Pkts = IdealHistory(c, tw, bp, 0, nil, false)
			bp.Pkts[3] = PChannel(down, HostUnreachable)
			if tw.MC.TokenAuth {
				bp.Pkts[1] = PTunnelCreate(ValidCookie(c, tw, bp, down), true)
			}
			bt := StartTunnels(c, []*TunPlan{bp})
			c.S.Run(func() bool {
				return bt[0].Client.Failed != "" || bt[0].Err != "" || len(bt[0].Client.Packets()) >= 4 || bt[0].Client.Ended()
			}, 5000, 40*time.Second)
			if pk := bt[0].Client.Packets(); len(pk) >= 4 && pk[3].Pkt.Status != 0 {
				done++
			}
			bt[0].Client.CloseAll(false)
		}
		c.S.Run(nil, 100, time.Second)
		ds = append(ds, fmt.Sprintf("after-%d-channel-creates-for-%s-(down)-by-someone-else(%d answered)", nb, down, done))
		c.S.Count("probe.many_failed_dials_by_another_client")
		c.S.Stats["probe.failed_dials_answered_with_an_error"] += done
	}
	installStalls(c, c.T.Choose(3))
	tw.Tuns = StartTunnels(c, tw.Plans)
	if silentIdx >= 0 {
		// when the silence is over, somebody else knocks at the gateway (a legacy client that
		// opens its outgoing connection and goes no further)
		st, visited := tw.Tuns[silentIdx], false
		c.S.AddActor("V visitor after the silence", func() bool { return !visited && st.quiet[silentPkt] }, func() {
			visited = true
			v := c.W.NewTunClient("visitor", "legacy", "10.9.8.7:45000", fmt.Sprintf("{VISITOR-%d}", c.Res.Seed&0xffff))
			v.OpenOut()
			c.S.Count("probe.visitor_after_long_silence")
		})
	}
	// one client may stop reading for good while its host keeps sending: its own business,
	// every other tunnel goes on
	deaf := -1
	if special == 3 {
		deaf = c.T.Choose(n)
		dt := tw.Tuns[deaf]
		if len(dt.Plan.HostScript) == 0 || dt.Plan.StartGate != nil || dt.Plan.SecondGate != nil {
			deaf = -1
		} else {
			stopped := false
			c.S.AddActor("F deaf client "+dt.Plan.Name, func() bool {
				if stopped {
					return false
				}
				for _, e := range dt.Client.Events {
					if e.Kind == "pkt" && e.Pkt.Type == codec.PktData {
						return true
					}
				}
				return false
			}, func() {
				stopped = true
				for _, e := range c.S.Ends() {
					if !e.Auto && !e.Owned && !e.Closed && strings.HasPrefix(e.Name, dt.Plan.Name+".") && strings.HasSuffix(e.Name, "'") {
						e.HoldWrites, e.KeepHold = true, true
					}
				}
				c.S.Count("fault.client.never_reads_again")
			})
			ds = append(ds, dt.Plan.Name+" stops reading for good once host data arrives")
		}
	}
	RunTunnels(c, tw.Tuns, 60000)
	okN := 0
	for ti, t := range tw.Tuns {
		if ti == deaf || ti == intruder {
			continue // nothing is demanded for a client that does not read / that misbehaves
		}
		if !t.Client.Ready && t.Client.Failed == "" && t.Err == "" {
			t.Client.Failed = "the transport was never accepted (no answer to the last request)"
		}
		if t.Client.Failed != "" || t.Err != "" {
			// every tunnel of this scenario sets up fine when it is alone (all other checks do
			// exactly that); failing only in company is an isolation failure
			c.S.Fail("C07", "setup-disturbed", "[%d tunnels, id-format=%d] tunnel %s (%s, connection id %q) could not establish its transport while other tunnels were active: %s %s; events=%s", n, idf, t.Plan.Name, t.Plan.Transport, t.Plan.ConnID, t.Client.Failed, t.Err, t.Client.Describe())
			break
		}
		v := CheckTunnel(c, t, tw.MC, "C07")
		if c.S.Viol != nil {
			break
		}
		if sv := CheckStreams(c, t, v, "C07", false); c.S.Viol != nil {
			break
		} else if sv.HostGot > 0 || sv.ClientGot > 0 {
			okN++
		}
	}
	if v := c.S.Viol; v != nil && v.Oracle != "C07" {
		// with several tunnels in flight any per-tunnel mismatch is an isolation failure
		// unless the same history fails alone; the differential re-run decides (driver)
		v.Msg = fmt.Sprintf("[%d tunnels] %s", n, v.Msg)
		if v.Oracle == "C01" || v.Oracle == "C16" || v.Oracle == "C06" {
			v.Sig = v.Oracle + ":" + v.Sig
			v.Oracle = "C07"
		}
	}
	c.S.Stats["probe.tunnels"] += n
	c.Res.Reach = okN >= 2
	c.Samplef("%d tunnels: %s", n, strings.Join(ds, " | "))
}
