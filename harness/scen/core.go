// Package scen holds the scenario families (workload + fault space + oracles) and the
// registry the worker runs them from.
package scen

import (
	"fmt"
	"sort"
	"strings"

	"simh/env"
	"simh/sim"
)

type Ctx struct {
	W    *env.World
	S    *sim.Sim
	T    *sim.Tape
	Prop string
	Tier string
	Res  *Result
	Arg  map[string]string
}

// Result is what one run reports to the driver.
type Result struct {
	Seed      uint64         `json:"seed"`
	Scenario  string         `json:"scenario"`
	Prop      string         `json:"prop"`
	Violation *sim.Violation `json:"violation,omitempty"`
	Infra     string         `json:"infra,omitempty"` // harness trouble: never a violation
	Journal   string         `json:"journal"`
	Shape     string         `json:"shape"`
	Steps     int            `json:"steps"`
	SimMS     int64          `json:"sim_ms"`
	Stats     map[string]int `json:"stats,omitempty"`
	Reach     bool           `json:"reach"` // the run satisfied the property's reach predicate
	Sample    string         `json:"sample,omitempty"`
	TapeLen   int            `json:"tape_len"`
	Tape      []uint32       `json:"tape,omitempty"`
	Tail      []string       `json:"tail,omitempty"`
	Inconcl   string         `json:"inconclusive,omitempty"`
	// CaseKey identifies the case a run explored when the journal shape is not a useful
	// measure of distinctness (request/response scenarios); "" means use the shape.
	CaseKey string `json:"case_key,omitempty"`
}

type Scenario struct {
	Name string
	Run  func(c *Ctx)
}

var Registry = map[string]*Scenario{}

func Register(name string, run func(c *Ctx)) { Registry[name] = &Scenario{name, run} }

func Names() []string {
	var out []string
	for k := range Registry {
		out = append(out, k)
	}
	sort.Strings(out)
	return out
}

// Infra marks the run as a harness failure (exit 2 in the driver, never a VIOLATION).
func (c *Ctx) Infra(format string, a ...any) {
	if c.Res.Infra == "" {
		c.Res.Infra = fmt.Sprintf(format, a...)
		c.S.Note("INFRA %s", c.Res.Infra)
	}
}

func (c *Ctx) Failed() bool { return c.S.Viol != nil || c.Res.Infra != "" }

// Sample sets the human-readable summary of this run for the evidence file.
func (c *Ctx) Samplef(format string, a ...any) { c.Res.Sample = fmt.Sprintf(format, a...) }

func short(b []byte) string {
	if len(b) > 24 {
		return fmt.Sprintf("%x..(%d)", b[:24], len(b))
	}
	return fmt.Sprintf("%x", b)
}

func joinNonEmpty(parts ...string) string {
	var o []string
	for _, p := range parts {
		if p != "" {
			o = append(o, p)
		}
	}
	return strings.Join(o, " ")
}
