package scen

import (
	"fmt"
	"strings"
	"time"

	"simh/codec"
	"simh/env"
	"simh/sim"

	authconfig "github.com/bolkedebruin/rdpgw/cmd/auth/config"
)

// TunWorld is the common setup of the tunnel family: stub IdP, a booted gateway, N planned
// tunnels with per-tunnel unique host names so that dials are attributable.
type TunWorld struct {
	Cfg   *env.GWConfig
	MC    ModelCfg
	Plans []*TunPlan
	Tuns  []*Tun
	// NTLM: the gateway runs with authentication [ntlm] and token auth off; every tunnel
	// connection authenticates through the auth node first
	NTLM bool
	Node *env.AuthNode
}

type TunOpts struct {
	N          int
	Transports []string // allowed transports ("ws","legacy")
	Cfg        *env.GWConfig
	ExtraHosts []string
	StreamIn   bool
	// IDFormat selects how connection identifiers look: 0 braced GUIDs (what Windows clients
	// send), 1 plain GUIDs, 2 short opaque tokens, 3 long opaque strings, 4 identifiers that
	// differ only in case or in one trailing character
	IDFormat int
}

// connID builds the i-th distinct connection identifier of a run.
func connID(c *Ctx, format, i int) string {
	seed := c.Res.Seed & 0xffffffff
	switch format {
	case 1:
		return fmt.Sprintf("%08x-0000-4000-8000-%012x", seed, i)
	case 2:
		return fmt.Sprintf("c%d-%d", seed%1000, i)
	case 3:
		return fmt.Sprintf("session/%d/%s/%d", seed, "opaque-connection-identifier-that-is-not-a-guid", i)
	case 4:
		base := fmt.Sprintf("{%08X-0000-4000-8000-ABCDEF%06X}", seed, i/2)
		if i%2 == 1 {
			return strings.ToLower(base)
		}
		return base
	}
	return fmt.Sprintf("{%08X-0000-4000-8000-%012X}", seed, i)
}

var _ = strings.ToLower

type unusedTunOpts struct {
}

// PlanTunnels draws N tunnel skeletons (names, addresses, hosts) and the configuration's
// host list; packets are filled in after boot by the property-specific generator.
func PlanTunnels(c *Ctx, o TunOpts) *TunWorld {
	tw := &TunWorld{Cfg: o.Cfg}
	if tw.Cfg == nil {
		tw.Cfg = env.BaseConfig()
	}
	tw.Cfg.Hosts = nil
	// host names as administrators write them: all lower case, or with capitals
	hf := []string{"h-%s.test:3389", "x-%s.test:3389", "u-%s.test:3389"}
	if c.T.Bool(1, 4) {
		hf = []string{"H-%s.Corp.Test:3389", "X-%s.Corp.Test:3389", "U-%s.Corp.Test:3389"}
	}
	for i := 0; i < o.N; i++ {
		name := fmt.Sprintf("t%d", i)
		tr := o.Transports[c.T.Choose(len(o.Transports))]
		p := &TunPlan{
			Name:        name,
			Transport:   tr,
			From:        fmt.Sprintf("10.1.%d.%d:%d", i/200, 10+i%200, 40000+i),
			ConnID:      connID(c, o.IDFormat, i),
			User:        fmt.Sprintf("user%d", i),
			AllowedHost: fmt.Sprintf(hf[0], name),
			DeniedHost:  fmt.Sprintf(hf[1], name),
			UnreachHost: fmt.Sprintf(hf[2], name),
			CloseAfter:  -1,
		}
		tw.Cfg.Hosts = append(tw.Cfg.Hosts, p.AllowedHost, p.UnreachHost)
		tw.Plans = append(tw.Plans, p)
	}
	tw.Cfg.Hosts = append(tw.Cfg.Hosts, o.ExtraHosts...)
	return tw
}

// BootTun boots the IdP and the gateway for a planned tunnel world.
func BootTun(c *Ctx, tw *TunWorld, streamIn bool) bool {
	c.W.NewIdP()
	if tw.NTLM {
		tw.Cfg.Authentication = []string{"ntlm"}
		tw.Cfg.TokenAuth = env.Bool(false)
		tw.Cfg.AuthSocket = "/sim/auth.sock"
		tw.Cfg.AuthTimeout = 5
		var users []authconfig.UserConfig
		for _, p := range tw.Plans {
			p.NTLMUser, p.NTLMPass = p.User, "pw-of-"+p.User
			users = append(users, authconfig.UserConfig{Username: p.User, Password: p.NTLMPass})
		}
		tw.Node = c.W.StartAuthNode("/sim/auth.sock", users, nil)
	}
	g := c.W.Boot(tw.Cfg)
	if g.Exited || g.Server == nil {
		c.Infra("gateway did not start: exit=%v code=%d line=%q", g.Exited, g.ExitCode, g.ExitLine)
		return false
	}
	tokenAuth := tw.Cfg.TokenAuth == nil || *tw.Cfg.TokenAuth
	tw.MC = ModelCfg{TokenAuth: tokenAuth, ServerCaps: ServerCapsOf(tokenAuth, tw.Cfg.SmartCardAuth), Redir: RedirOf(tw.Cfg), Idle: IdleOf(tw.Cfg), CheckRedir: true}
	for _, p := range tw.Plans {
		p.AccessToken = c.W.IdP.IssueAccessToken(p.User)
	}
	return true
}

// ValidCookie mints the cookie for a plan targeting host.
func ValidCookie(c *Ctx, tw *TunWorld, p *TunPlan, host string) string {
	ip := clientIP(p.From)
	if p.XFF != "" {
		ip = firstXFF(p.XFF)
	}
	return MintCookie(c, tw.Cfg.PAASigningKey, p.User, host, ip, p.AccessToken, 5*time.Minute)
}

func firstXFF(x string) string {
	for i := 0; i < len(x); i++ {
		if x[i] == ',' {
			x = x[:i]
			break
		}
	}
	for len(x) > 0 && x[0] == ' ' {
		x = x[1:]
	}
	for len(x) > 0 && x[len(x)-1] == ' ' {
		x = x[:len(x)-1]
	}
	return x
}

func splitHostPort(hp string) (string, uint16) {
	for i := len(hp) - 1; i >= 0; i-- {
		if hp[i] == ':' {
			var port uint16
			fmt.Sscanf(hp[i+1:], "%d", &port)
			return hp[:i], port
		}
	}
	return hp, 0
}

// Packet builders that keep meaning and bytes together.

func PHandshake(caps uint16, major, minor byte) CPkt {
	return CPkt{Kind: KHandshake, Caps: caps, Major: major, Minor: minor, Bytes: codec.HandshakeRequest(major, minor, 0, caps)}
}

func PTunnelCreate(cookie string, ok bool) CPkt {
	return CPkt{Kind: KTunnelCreate, Cookie: cookie, CookieOK: ok, Bytes: codec.TunnelCreate(0x3f, true, cookie)}
}

func PTunnelCreateNoCookie() CPkt {
	return CPkt{Kind: KTunnelCreate, NoCookie: true, Bytes: codec.TunnelCreate(0x3f, false, "")}
}

func PTunnelAuth(name string) CPkt {
	return CPkt{Kind: KTunnelAuth, Bytes: codec.TunnelAuth(name)}
}

func PChannel(hostport string, verdict int) CPkt {
	h, port := splitHostPort(hostport)
	return CPkt{Kind: KChannelCreate, HostKey: hostport, Verdict: verdict, Bytes: codec.ChannelCreateHost(h, port)}
}

// PChannelAlts is a channel create that also lists alternate names for the resource; only
// the resource name itself is what the client asks for (and what policy is applied to).
func PChannelAlts(hostport string, verdict int, alts []string) CPkt {
	h, port := splitHostPort(hostport)
	var names []string
	for _, a := range alts {
		n, _ := splitHostPort(a)
		names = append(names, n)
	}
	return CPkt{Kind: KChannelCreate, HostKey: hostport, Verdict: verdict, Alts: true, Bytes: codec.ChannelCreateAlts(h, names, port)}
}

func PData(payload []byte) CPkt {
	return CPkt{Kind: KData, Payload: payload, Bytes: codec.Data(payload, -1)}
}

func PKeepalive() CPkt { return CPkt{Kind: KKeepalive, Bytes: codec.Keepalive()} }

func PClose() CPkt { return CPkt{Kind: KClose, Bytes: codec.CloseChannel(0)} }

func PUnknown(t uint16, body []byte) CPkt {
	return CPkt{Kind: KUnknown, Type: t, Bytes: codec.Packet(t, body)}
}

// Truncate makes a malformed variant of a known packet: the body is cut and the header
// length adjusted so that framing stays intact (framing faults belong to C08).
func Truncate(p CPkt, keep int) CPkt {
	body := p.Bytes[8:]
	if keep >= len(body) {
		keep = len(body) - 1
	}
	if keep < 0 {
		keep = 0
	}
	q := p
	q.Malformed = true
	q.Bytes = codec.Packet(uint16(pktType(p.Kind)), body[:keep])
	return q
}

// IdealHistory is the straight-line valid exchange for a plan.
func IdealHistory(c *Ctx, tw *TunWorld, p *TunPlan, nData int, dataSize func() int, withClose bool) []CPkt {
	h := []CPkt{
		PHandshake(tw.MC.ServerCaps, 1, 0),
		PTunnelCreate(ValidCookie(c, tw, p, p.AllowedHost), true),
		PTunnelAuth("client-" + p.Name),
		PChannel(p.AllowedHost, HostAllowed),
	}
	if tw.MC.ServerCaps == 3 {
		// both mechanisms enabled: the client may offer both or either one
		h[0] = PHandshake([]uint16{3, 3, 1, 2}[c.T.Choose(4)], 1, 0)
	}
	if !tw.MC.TokenAuth {
		h[1] = PTunnelCreateNoCookie()
	}
	if tw.MC.ServerCaps == 0 {
		h[0] = PHandshake(0, 1, 0)
	}
	for i := 0; i < nData; i++ {
		h = append(h, PData(c.T.Bytes(dataSize(), byte(len(p.Name)+i))))
	}
	if withClose {
		h = append(h, PClose())
	}
	return h
}

var _ = sim.StopIdle
