package scen

import (
	"fmt"
	"runtime"
	"strings"
	"time"

	"simh/codec"
	"simh/sim"

	"github.com/bolkedebruin/rdpgw/cmd/rdpgw/protocol"
)

func init() {
	Register("c11", runC11)
}

// protocolGoroutines counts goroutines that have a frame of the gateway's protocol package
// (relay and packet-loop goroutines).  Goroutines leaked by earlier runs of the same worker
// process stay parked forever, so the count is compared with its value at run start.
func protocolGoroutines() (int, string) {
	buf := make([]byte, 1<<20)
	for {
		n := runtime.Stack(buf, true)
		if n < len(buf) {
			buf = buf[:n]
			break
		}
		buf = make([]byte, 2*len(buf))
	}
	n := 0
	var first string
	for _, g := range strings.Split(string(buf), "\n\n") {
		if strings.Contains(g, "rdpgw/cmd/rdpgw/protocol.") {
			n++
			// a deterministic representative: the lexically smallest innermost frame
			fn := ""
			for _, ln := range strings.Split(g, "\n") {
				if strings.Contains(ln, "rdpgw/cmd/rdpgw/protocol.") {
					fn = strings.TrimSpace(ln)
					if i := strings.IndexByte(fn, '('); i > 0 {
						fn = fn[:i]
					}
					break
				}
			}
			if first == "" || fn < first {
				first = fn
			}
		}
	}
	return n, first
}

var c11Causes = []string{"close-channel", "out-of-order", "unframeable", "client-eof", "client-rst", "in-eof", "out-eof", "in-rst", "out-rst"}
var c11Points = []string{"before-handshake", "after-handshake", "after-tunnel-create", "after-tunnel-auth", "after-channel-create", "data-to-host", "data-to-client", "data-both"}

// runC11 enumerates end cause x end point x transport (by seed) and samples the remaining
// schedule; after a drain everything that belonged to the tunnel must be released.
func runC11(c *Ctx) {
	idx := int(c.Res.Seed % uint64(len(c11Causes)*len(c11Points)*2))
	tr := []string{"ws", "legacy"}[idx%2]
	cause := c11Causes[(idx/2)%len(c11Causes)]
	point := c11Points[(idx/2/len(c11Causes))%len(c11Points)]
	if tr == "ws" {
		switch cause {
		case "in-eof", "out-eof":
			cause = "client-eof"
		case "in-rst", "out-rst":
			cause = "client-rst"
		}
	}
	if cause == "close-channel" && !strings.HasPrefix(point, "data") {
		point = "data-to-host" // an orderly close exists only on an open channel
	}
	tw := PlanTunnels(c, TunOpts{N: 1, Transports: []string{tr}})
	if !BootTun(c, tw, false) {
		return
	}
	g0, _ := protocolGoroutines()
	m0 := c.W.Metrics("10.250.0.1:50000")
	p := tw.Plans[0]
	ideal := IdealHistory(c, tw, p, 0, nil, false)
	var pk []CPkt
	switch point {
	case "before-handshake":
	case "after-handshake":
		pk = ideal[:1]
	case "after-tunnel-create":
		pk = ideal[:2]
	case "after-tunnel-auth":
		pk = ideal[:3]
	default:
		pk = ideal[:4]
	}
	hostData := point == "data-to-client" || point == "data-both"
	clientData := point == "data-to-host" || point == "data-both" || cause == "close-channel"
	if clientData {
		for i := 0; i < 1+c.T.Choose(4); i++ {
			pk = append(pk, PData(c.T.Bytes(1+c.T.Choose(3000), 0x61)))
		}
	}
	if hostData {
		for i := 0; i < 1+c.T.Choose(6); i++ {
			p.HostScript = append(p.HostScript, c.T.Bytes(1+c.T.Choose(9000), 0x62))
		}
	}
	var endPkt *CPkt
	switch cause {
	case "close-channel":
		x := PClose()
		endPkt = &x
	case "out-of-order":
		// a request that is not valid in the phase reached: any of the four set-up requests
		// except the one that would be next
		cands := []CPkt{PHandshake(tw.MC.ServerCaps, 1, 0), PTunnelCreate(ValidCookie(c, tw, p, p.AllowedHost), true), PTunnelAuth("again"), PChannel(p.AllowedHost, HostAllowed)}
		phase := len(pk)
		if phase > 4 {
			phase = 4
		}
		if phase < 4 {
			cands = append(cands[:phase], cands[phase+1:]...)
		}
		x := cands[c.T.Choose(len(cands))]
		endPkt = &x
	case "unframeable":
		x := CPkt{Kind: KUnknown, Type: 0x0A, Bytes: codec.PacketRaw(0x0A, uint32(c.T.Choose(8)), c.T.Bytes(4, 9))}
		if c.T.Bool(1, 3) {
			// ... or a header that announces more than any packet may have (above 128 KiB), with a
			// few bytes behind it; the client stays connected and sends nothing more
			big := []uint32{131073, 200000, 1 << 20, 0x7fffffff, 0xffffffff}[c.T.Choose(5)]
			x = CPkt{Kind: KUnframeable, Type: 0x0A, Bytes: codec.PacketRaw([]uint16{0x0A, uint16(codec.PktData), uint16(codec.PktKeepalive)}[c.T.Choose(3)], big, c.T.Bytes(c.T.Choose(40), 9))}
		}
		endPkt = &x
	}
	p.Pkts = pk
	if endPkt != nil {
		p.Pkts = append(append([]CPkt{}, pk...), *endPkt)
		if tr == "legacy" && c.T.Bool(1, 6) {
			// the packet that ends the tunnel comes after 6-16 minutes of silence
			p.QuietBefore = map[int]time.Duration{len(pk): time.Duration(6+c.T.Choose(11)) * time.Minute}
			c.S.Count("probe.session_longer_than_cache_lifetimes")
		}
		if c.T.Bool(1, 3) {
			// the client had more packets in flight behind the one that ends the tunnel
			for k := 1 + c.T.Choose(3); k > 0; k-- {
				if c.T.Bool(1, 2) {
					p.Pkts = append(p.Pkts, PKeepalive())
				} else {
					p.Pkts = append(p.Pkts, PData(c.T.Bytes(1+c.T.Choose(200), 0x63)))
				}
			}
			c.S.Count("probe.packets_behind_the_last")
		}
	}
	if tr == "legacy" && c.T.Bool(1, 4) {
		// the client retries its RDG_IN_DATA request (same connection id) while the tunnel is
		// alive; the retry is refused, and the tunnel's end releases everything all the same
		p.DupIn, p.DupAfter = 2, c.T.Choose(len(p.Pkts)+1)
	}
	if tr == "legacy" && c.T.Bool(1, 5) {
		// a client that is slow to start: seconds pass between the acceptance of its incoming
		// channel and the first byte it sends
		p.PreambleDelay = time.Duration(2+c.T.Choose(50)) * time.Second
	}
	// data in flight at the moment of the end: stall one direction at the gateway
	inflight := c.T.Bool(1, 2) && strings.HasPrefix(point, "data")
	tw.Tuns = StartTunnels(c, tw.Plans)
	t := tw.Tuns[0]
	if strings.HasPrefix(point, "data") {
		// the remote desktop host may have hung up (or reset) before the client side ends
		for _, h := range t.Hosts {
			switch c.T.Weighted(4, 1, 1) {
			case 1:
				h.CloseAfterScript = true
			case 2:
				h.ResetAfter = c.T.Choose(len(h.Script) + 1)
			}
		}
	}
	cl := t.Client
	stalled := false
	finished := false      // the tunnel under test is over: no more faults are placed
	clientStopped := false // the client stopped reading after the set-up was complete
	if inflight && hostData && c.T.Bool(1, 2) {
		// the client stops reading once host data has started to arrive: from then on only
		// relay writes are held
		inflight = false
		c.S.AddActor("F client-stops-reading", func() bool {
			if stalled || c.S.Draining || finished {
				return false
			}
			for _, e := range cl.Events {
				if e.Kind == "pkt" && e.Pkt.Type == codec.PktData {
					return true
				}
			}
			return false
		}, func() {
			stalled = true
			clientStopped = true
			for _, e := range c.S.Ends() {
				if !e.Auto && !e.Owned && !e.Closed && strings.HasPrefix(e.Name, p.Name+".") {
					e.HoldWrites = true
					c.S.Count("fault.stall.write")
				}
			}
		})
	}
	if inflight {
		c.S.AddActor("F inflight-stall", func() bool { return !stalled && len(cl.Sent) >= 4 && !c.S.Draining && !finished }, func() {
			stalled = true
			for _, e := range c.S.Ends() {
				if e.Auto || e.Owned || e.Closed {
					continue
				}
				if c.T.Bool(1, 2) {
					e.HoldWrites = true
					c.S.Count("fault.stall.write")
				}
			}
		})
	}
	// run until everything planned has been sent
	c.S.Run(func() bool { return t.SentAll() || cl.Failed != "" }, 6000, 20*time.Second)
	if cl.Failed != "" || t.Err != "" {
		c.Infra("transport setup failed: %s %s", cl.Failed, t.Err)
		return
	}
	// let part of the traffic flow, then the connection-level end causes
	c.S.Run(nil, c.T.Choose(30), time.Second)
	if tr == "legacy" && endPkt == nil && !stalled && c.T.Bool(1, 6) && c.S.PendingDials() == 0 {
		// a session that outlived every cache lifetime inside the gateway before it ends
		c.S.Advance(time.Duration(6+c.T.Choose(11)) * time.Minute)
		c.S.Run(nil, 50, time.Second)
		c.S.Count("probe.session_longer_than_cache_lifetimes")
	}
	switch cause {
	case "client-eof":
		cl.CloseAll(false)
		c.S.Count("fault.conn.eof")
	case "client-rst":
		cl.CloseAll(true)
		c.S.Count("fault.conn.rst")
	case "in-eof":
		cl.In.Shut()
		c.S.Count("fault.conn.eof")
	case "in-rst":
		cl.In.Reset()
		c.S.Count("fault.conn.rst")
	case "out-eof":
		cl.Out.Shut()
		c.S.Count("fault.conn.eof")
	case "out-rst":
		cl.Out.Reset()
		c.S.Count("fault.conn.rst")
	}
	// drain: faults off, host idle and not closing first, bounded steps and simulated time
	for _, h := range t.Hosts {
		for _, hc := range h.Conns {
			hc.Hold = true
		}
	}
	// A client that has stopped reading stays that way (its prerogative): for end causes that
	// do not require the gateway to write to the client while the client stays connected, held client-facing writes are NOT
	// lifted; the gateway must release everything regardless.  Host-side stalls are lifted.
	// (After the client has closed or reset, a held write is not sustainable: the peer's kernel
	// answers with a reset, so those causes lift the stall.)
	keepClientStall := cause == "unframeable" && clientStopped
	if keepClientStall {
		// ... unless the packet loop itself is the one stuck behind the client (a held control
		// response): then the gateway has not even seen the end of the tunnel yet
		for _, d := range c.S.PendingWriteData(p.Name + ".") {
			pk := d
			if tr == "ws" && len(pk) >= 2 {
				switch pk[1] & 0x7f {
				case 126:
					pk = pk[min(4, len(pk)):]
				case 127:
					pk = pk[min(10, len(pk)):]
				default:
					pk = pk[2:]
				}
			}
			if len(pk) < 2 || pk[0] != codec.PktData {
				keepClientStall = false
			}
		}
	}
	c.S.Draining = true
	for _, e := range c.S.Ends() {
		clientFacing := strings.HasSuffix(e.Name, "'") && strings.HasPrefix(e.Name, p.Name+".")
		if keepClientStall && clientFacing && e.HoldWrites {
			c.S.Count("probe.client_never_reads_again")
			continue
		}
		e.HoldDeliver, e.HoldWrites = false, false
	}
	c.S.Run(nil, 4000, 20*time.Second)
	c.S.Run(nil, 2000, 40*time.Second)

	ended := true
	var leaks []string
	sig := ""
	add := func(s, what string) {
		leaks = append(leaks, what)
		if sig == "" {
			sig = s
		}
	}
	if cause == "out-eof" || cause == "out-rst" {
		if cl.In != nil && !cl.In.PeerClosed() {
			add("out-drop-unnoticed", "the OUT channel was dropped by the client but the gateway keeps the tunnel (IN channel still open)")
		}
	}
	if ended {
		// 1. backend connection closed by the gateway
		for _, h := range t.Hosts {
			for i, hc := range h.Conns {
				if !hc.EOF && !hc.End.PeerClosed() {
					add("backend-open", fmt.Sprintf("backend connection %s#%d never saw EOF/RST from the gateway", h.Addr, i))
				}
			}
		}
		// 2. client-facing connections closed by the gateway
		for _, e := range c.S.Ends() {
			if e.Owned && strings.HasPrefix(e.Name, p.Name+".") && !e.PeerClosed() {
				role := strings.TrimPrefix(e.Name, p.Name+".")
				add("client-conn-open:"+role, fmt.Sprintf("client-facing connection %s was not closed by the gateway", e.Name))
			}
		}
		// 3. goroutines
		if g1, st := protocolGoroutines(); g1 != g0 {
			_ = st
			add("goroutine-leak", fmt.Sprintf("%d goroutine(s) with a frame in the protocol package outlive the tunnel", g1-g0))
		}
		// 4. registry
		if n := protocol.SimRegistrySize(); n > 0 {
			add("registry-entry", fmt.Sprintf("connection registry still has %d entries", n))
		}
		// 5. gauges
		m1 := c.W.Metrics("10.250.0.1:50001")
		for _, k := range []string{"rdpgw_websocket_connections", "rdpgw_legacy_connections"} {
			if m1[k] != m0[k] {
				add("gauge:"+k, fmt.Sprintf("%s changed by %+g across the tunnel's life", k, m1[k]-m0[k]))
			}
		}
	}
	if len(leaks) > 0 {
		c.S.Fail("C11", sig, "%s end=%s at=%s inflight=%v: %s", tr, cause, point, inflight, strings.Join(leaks, "; "))
	}
	if len(leaks) == 0 && ended && tr == "legacy" && c.T.Bool(1, 3) {
		// 6. nothing of the ended tunnel is left under its connection id: the same client comes
		// back under the same id and gets a tunnel of its own
		finished = true
		c.S.Draining = false
		c.S.Advance(time.Duration(c.T.Choose(90)) * time.Second)
		p2 := &TunPlan{Name: "r1", Transport: "legacy", From: p.From, ConnID: p.ConnID, User: p.User, AllowedHost: p.AllowedHost, AccessToken: p.AccessToken, CloseAfter: -1}
		p2.Pkts = []CPkt{PHandshake(tw.MC.ServerCaps, 1, 0)}
		t2 := StartTunnels(c, []*TunPlan{p2})
		c.S.Run(func() bool {
			return t2[0].Client.Failed != "" || t2[0].Err != "" || len(t2[0].Client.Packets()) >= 1 || t2[0].Client.Ended()
		}, 4000, 20*time.Second)
		c.S.Run(nil, 200, time.Second)
		c.S.Count("probe.client_returns_under_the_same_id")
		if pk := t2[0].Client.Packets(); len(pk) < 1 || pk[0].Pkt.Type != codec.PktHandshakeResponse || pk[0].Pkt.Status != 0 {
			c.S.Fail("C11", "ended-tunnel-not-forgotten", "%s end=%s at=%s: after the tunnel ended and was released, the same client returns under the same connection id %q and gets no tunnel of its own (setup=%q %q, events=%s)", tr, cause, point, p.ConnID, t2[0].Client.Failed, t2[0].Err, t2[0].Client.Describe())
		}
		t2[0].Client.CloseAll(false)
		Drain(c, 2000)
	}
	c.S.Count("probe.end." + cause)
	c.Res.Reach = ended
	c.Samplef("%s end-cause=%s end-point=%s data-in-flight=%v sent=%s => ended=%v leaks=%v events=%s", tr, cause, point, inflight, planString(p, len(cl.Sent)), ended, leaks, cl.Describe())
}

var _ = sim.StopIdle
