package scen

import (
	"encoding/json"
	"fmt"
	"net"
	"net/url"
	"strings"
	"time"

	"simh/codec"
	"simh/env"
)

func init() {
	Register("c13", runC13)
	Register("c12", runC12)
}

// webConfig is the OpenID gateway configuration the WEB family starts from.
func webConfig(c *Ctx) *env.GWConfig {
	cfg := env.BaseConfig()
	cfg.Hosts = []string{"host-a.test:3389", "host-b.test:3389"}
	return cfg
}

func bootWeb(c *Ctx, cfg *env.GWConfig) bool {
	if c.W.IdP == nil {
		c.W.NewIdP()
	}
	g := c.W.Boot(cfg)
	if g.Exited || g.Server == nil {
		c.Infra("gateway did not start: exit=%v code=%d line=%q", g.Exited, g.ExitCode, g.ExitLine)
		return false
	}
	return true
}

// gotFile reports whether a response is a connection file (and therefore carries a token).
func gotFile(r *env.HTTPResult) bool {
	return r.Status == 200 && (strings.Contains(strings.ToLower(r.Header.Get("Content-Type")), "rdp") || strings.Contains(string(r.Body), "gatewayaccesstoken"))
}

func leaksToken(r *env.HTTPResult) bool {
	return strings.Contains(string(r.Raw), "gatewayaccesstoken")
}

func toIdP(c *Ctx, r *env.HTTPResult) bool {
	return r.Status == 302 && strings.HasPrefix(r.Header.Get("Location"), c.W.IdP.Issuer+"/auth")
}

var c13Failures = []string{"none", "unknown-state", "expired-state", "refuse", "noidtoken", "badsig", "wrongiss", "wrongaud", "expired", "noclaim", "5xx", "garbage", "code-replay", "idp-down", "claim-not-a-name", "claim-name-in-other-case", "callback-url-replayed"}

// runC13: callback failure point x session store x (first callback | existing session),
// followed by identity persistence and session-cookie mutations.
func runC13(c *Ctx) {
	idx := int(c.Res.Seed % uint64(len(c13Failures)*2*2))
	failure := c13Failures[idx%len(c13Failures)]
	store := []string{"cookie", "file"}[(idx/len(c13Failures))%2]
	existing := (idx/len(c13Failures)/2)%2 == 1
	cfg := webConfig(c)
	cfg.SessionStore = store
	if !bootWeb(c, cfg) {
		return
	}
	claimName := []string{"preferred_username", "unique_name", "upn", "username"}[c.T.Choose(4)]
	userName := []string{"alice", "bob@corp.test", "Zoë", "x", "CORP\\alice", "DEV\\svc-backup"}[c.T.Choose(6)]
	user := &env.IdPUser{Sub: "sub-" + userName, Claims: map[string]any{claimName: userName}}
	// somebody else may be signed in and active on the same gateway all along
	var other *env.Browser
	otherName := "olga"
	if c.T.Bool(1, 2) {
		other = c.W.NewBrowser("b0", "10.2.0.9:51009")
		if ok, cbo := other.Login("/connect", &env.IdPUser{Sub: "sub-olga", Claims: map[string]any{"preferred_username": otherName}}); !ok {
			c.S.Fail("C13", "valid-login-not-authenticated", "login of another user failed: callback %d", cbo.Status)
			return
		}
		c.S.Count("probe.another_user_signed_in")
	}
	otherActive := func(when string) bool {
		if other == nil {
			return true
		}
		r := other.Get("/connect")
		if !gotFile(r) || env.ParseRDP(r.Body).Values["username"] != otherName {
			c.S.Fail("C13", "identity-changed", "the other signed-in user (%s) %s: status %d, user %q", otherName, when, r.Status, env.ParseRDP(r.Body).Values["username"])
			return false
		}
		return true
	}
	b := c.W.NewBrowser("b1", "10.2.0.5:51000")
	b.VaryPort = c.T.Bool(1, 2)
	c.W.IdP.NoExpiresIn = c.T.Bool(1, 4)
	c.W.IdP.AzpOnWrongAud = c.T.Bool(1, 2)
	// other claims the provider puts into its ID tokens (group memberships as names or as
	// objects, many of them): none of the gateway's business
	switch c.T.Choose(5) {
	case 1:
		user.Claims["groups"] = []any{"rdp-users", "staff"}
	case 2:
		var g []any
		for k := 0; k < 60; k++ {
			g = append(g, fmt.Sprintf("cn=group-number-%02d,ou=groups,dc=corp,dc=example", k))
		}
		user.Claims["groups"] = g
	case 3:
		user.Claims["groups"] = []any{map[string]any{"id": "7f3e", "name": "rdp-users"}, map[string]any{"id": "9a10", "name": "staff"}}
	case 4:
		user.Claims["realm_access"] = map[string]any{"roles": []any{"offline_access", "uma_authorization"}}
	}
	if existing {
		// the session already exists (an earlier visit that did not log in)
		if r := b.Get("/connect"); !toIdP(c, r) {
			c.S.Fail("C13", "unauthenticated-not-redirected", "first visit: expected a redirect to the provider, got %d", r.Status)
			return
		}
	}
	state, r0 := b.StartLogin("/connect")
	stateIssued := time.Now()
	if state == "" || !toIdP(c, r0) {
		c.S.Fail("C13", "unauthenticated-not-redirected", "visit without login: expected a redirect to the provider, got %d %q", r0.Status, r0.Header.Get("Location"))
		return
	}
	if leaksToken(r0) {
		c.S.Fail("C12", "token-to-unauthenticated", "redirect response carries a token")
		return
	}
	code := c.W.IdP.NewCode(user)
	cbState := state
	dontCare := false
	switch failure {
	case "none":
	case "unknown-state":
		cbState = fmt.Sprintf("%x", c.T.Bytes(16, 1))
	case "expired-state":
		d := 120*time.Second + time.Duration(3+c.T.Choose(600))*time.Second
		c.S.Advance(d)
	case "code-replay":
		// the code was already used by someone else
		delete(c.W.IdP.Codes, code)
	case "idp-down":
		c.W.IdP.Down = true
	case "callback-url-replayed":
		// somebody else completed a login through this gateway a moment ago; this browser sends
		// the very same callback URL (state and code as seen in a proxy log or a browser history):
		// the state is still young, the code has been redeemed, the provider refuses it
		v := c.W.NewBrowser("bv", "10.2.0.8:51008")
		vst, _ := v.StartLogin("/connect")
		vcode := c.W.IdP.NewCode(&env.IdPUser{Sub: "sub-victor", Claims: map[string]any{"preferred_username": "victor"}})
		if cbv := v.Get("/callback?state=" + url.QueryEscape(vst) + "&code=" + url.QueryEscape(vcode)); vst == "" || cbv.Status != 302 {
			c.S.Fail("C13", "valid-login-not-authenticated", "login of another user failed: callback %d", cbv.Status)
			return
		}
		c.S.Advance(time.Duration(c.T.Choose(60)) * time.Second)
		cbState, code = vst, vcode
		if c.T.Bool(1, 3) {
			c.W.IdP.Down = true // ... or cannot be reached at all
		}
	case "claim-name-in-other-case":
		// claims whose names differ from the user-name claims only in letter case are other claims
		user.Claims = map[string]any{[]string{"UPN", "Preferred_Username", "UserName", "Unique_Name", "PREFERRED_USERNAME"}[c.T.Choose(5)]: userName}
		code = c.W.IdP.NewCode(user)
	case "claim-not-a-name":
		// every candidate claim is present but none is a string: there is no user name
		for _, k := range []string{"preferred_username", "unique_name", "upn", "username"} {
			user.Claims[k] = []any{nil, []any{}, map[string]any{}, false}[c.T.Choose(4)]
		}
		code = c.W.IdP.NewCode(user)
	case "expired":
		// expired a few seconds, a minute or ten minutes ago: expired is expired
		c.W.IdP.ExpiredBy = []time.Duration{2 * time.Second, 20 * time.Second, 59 * time.Second, 3 * time.Minute, 10 * time.Minute}[c.T.Choose(5)]
		c.W.IdP.TokenFault = failure
	default:
		c.W.IdP.TokenFault = failure
	}
	if (failure == "none" && c.T.Bool(1, 3)) || (failure != "none" && failure != "expired-state" && c.T.Bool(1, 2)) {
		// a state that is old but still inside the two minutes
		c.S.Advance(time.Duration(c.T.Choose(115)) * time.Second)
	}
	if failure == "none" {
		// clock skew: the provider's clock runs ahead of the gateway's (its tokens are stamped
		// slightly in the gateway's future)
		c.W.IdP.ClockAhead = []time.Duration{0, 0, time.Second, 2 * time.Second, 30 * time.Second, 90 * time.Second, 4 * time.Minute}[c.T.Choose(7)]
		if c.T.Bool(1, 25) {
			// while this user is at the provider, a crowd of other visitors (no cookie yet) hits the
			// gateway and is sent to the provider as well
			n := 515 + c.T.Choose(200)
			for i := 0; i < n && c.S.Viol == nil; i++ {
				c.W.Do(&env.HTTPReq{Name: fmt.Sprintf("crowd%d", i), From: fmt.Sprintf("10.8.%d.%d:40000", i/250, 1+i%250), Method: "GET", Path: "/connect"})
			}
			c.S.Count("probe.crowd_of_visitors_between_redirect_and_callback")
		}
	}
	cb := b.Get("/callback?state=" + url.QueryEscape(cbState) + "&code=" + url.QueryEscape(code))
	c.W.IdP.ClockAhead = 0
	c.W.IdP.Down = false
	c.W.IdP.TokenFault = ""
	if !otherActive("after this browser's callback") {
		return
	}
	after := b.Get("/connect")
	sample := fmt.Sprintf("store=%s existing-session=%v failure=%s claim=%s user=%q: callback=%d connect-after=%d", store, existing, failure, claimName, userName, cb.Status, after.Status)
	c.S.Count("probe.failure." + failure)
	if failure != "none" {
		if gotFile(after) || !toIdP(c, after) && after.Status < 400 {
			c.S.Fail("C13", "authenticated-after-failed-callback:"+failure+":"+store, "%s: a callback that failed at %q left the session authenticated (a connection file was issued: %v)", sample, failure, gotFile(after))
		}
		// a retry with a code the provider accepts, made when the state is older than two
		// minutes (counted from when the gateway issued it), must not authenticate either
		if c.S.Viol == nil && failure != "unknown-state" && failure != "expired-state" && c.T.Bool(1, 2) {
			age := time.Since(stateIssued)
			if age < 124*time.Second {
				c.S.Advance(124*time.Second - age + time.Duration(c.T.Choose(100))*time.Second)
			}
			good := &env.IdPUser{Sub: "sub-" + userName, Claims: map[string]any{claimName: userName}}
			cb2 := b.Get("/callback?state=" + url.QueryEscape(state) + "&code=" + url.QueryEscape(c.W.IdP.NewCode(good)))
			after2 := b.Get("/connect")
			sample += fmt.Sprintf("; retry with the same state %ds after it was issued: callback=%d connect-after=%d", int(time.Since(stateIssued).Seconds()), cb2.Status, after2.Status)
			if gotFile(after2) {
				c.S.Fail("C13", "authenticated-with-expired-state:after-"+failure+":"+store, "%s: the state was older than two minutes", sample)
			}
			c.S.Count("probe.retry_after_state_expiry")
		}
		c.Res.Reach = true
		c.Res.CaseKey = fmt.Sprintf("%s/%s/%v/%s/%s/%d", failure, store, existing, claimName, userName, cb.Status)
		c.Samplef("%s", sample)
		return
	}
	_ = dontCare
	// good callback: the session is authenticated as the claim
	if cb.Status != 302 || !gotFile(after) {
		c.S.Fail("C13", "valid-login-not-authenticated", "%s: a verified login did not yield an authenticated session (body %.80q)", sample, after.Body)
		return
	}
	f := env.ParseRDP(after.Body)
	if f.Values["username"] != userName {
		c.S.Fail("C13", "wrong-user", "%s: the file names user %q, the ID token's %s claim is %q", sample, f.Values["username"], claimName, userName)
		return
	}
	// identity restored unchanged on later requests
	for i := 0; i < 1+c.T.Choose(3); i++ {
		c.S.Advance(time.Duration(c.T.Choose(20)) * time.Second)
		r := b.Get("/connect")
		if !gotFile(r) {
			c.S.Fail("C13", "identity-lost", "%s: later request %d got %d instead of a file", sample, i, r.Status)
			return
		}
		if u := env.ParseRDP(r.Body).Values["username"]; u != userName {
			c.S.Fail("C13", "identity-changed", "%s: later request names user %q", sample, u)
			return
		}
	}
	// a visitor who never signed in stays unauthenticated while signed-in users are active
	if c.T.Bool(1, 2) {
		v := c.W.NewBrowser("b3", "10.2.0.7:51003")
		v.Get("/connect")
		for i := 0; i < 1+c.T.Choose(2) && c.S.Viol == nil; i++ {
			b.Get("/connect")
			if !otherActive("while a visitor browses") {
				return
			}
			if r := v.Get("/connect"); gotFile(r) || !toIdP(c, r) {
				c.S.Fail("C13", "visitor-authenticated", "%s: a browser that never signed in got %d (file: %v, user %q) after requests of signed-in users", sample, r.Status, gotFile(r), env.ParseRDP(r.Body).Values["username"])
				return
			}
		}
		c.S.Count("probe.visitor_interleaved")
	}
	// altered or foreign cookies never authenticate
	good := b.Jar["RDPGWSESSION"]
	mut := c.T.Choose(5)
	var forged, kind string
	switch mut {
	case 0:
		i := c.T.Choose(len(good))
		bs := []byte(good)
		if bs[i] == 'A' {
			bs[i] = 'B'
		} else {
			bs[i] = 'A'
		}
		forged, kind = string(bs), fmt.Sprintf("flip@%d", i)
	case 1:
		forged, kind = good[:c.T.Choose(len(good))], "truncated"
	case 2:
		forged, kind = good+"A", "extended"
	case 3:
		forged, kind = codec.B64(c.T.Bytes(80, 9)), "random"
	default:
		kind = "other-instance"
	}
	if kind == "other-instance" {
		// a second instance with regenerated keys must not honour the first one's cookie
		c.W.GW.Stop()
		cfg2 := webConfig(c)
		cfg2.SessionStore = store
		cfg2.OmitKeys = map[string]bool{"SessionKey": true, "SessionEncryptionKey": true}
		if !bootWeb(c, cfg2) {
			return
		}
		forged = good
	}
	b2 := c.W.NewBrowser("b2", "10.2.0.6:51001")
	b2.Jar["RDPGWSESSION"] = forged
	r := b2.Get("/connect")
	c.S.Count("probe.cookie." + kind)
	if gotFile(r) {
		// a flip that does not change the decoded bytes is the same cookie (base64 slack)
		if kind[:4] == "flip" && sameB64(good, forged) {
			c.S.Count("probe.cookie.flip-equivalent")
		} else {
			c.S.Fail("C13", "forged-cookie-authenticated:"+strings.SplitN(kind, "@", 2)[0], "%s: session cookie mutation %s yielded a connection file", sample, kind)
			return
		}
	}
	c.Res.Reach = true
	c.Res.CaseKey = fmt.Sprintf("%s/%s/%v/%s/%s/%s", failure, store, existing, claimName, userName, strings.SplitN(kind, "@", 2)[0])
	c.Samplef("%s; cookie-mutation=%s -> %d", sample, kind, r.Status)
}

func canonicalIP(s string) string {
	if ip := net.ParseIP(s); ip != nil {
		return ip.String()
	}
	return ""
}

func sameB64(a, b string) bool {
	x, e1 := codec.UnB64(strings.TrimRight(a, "="))
	y, e2 := codec.UnB64(strings.TrimRight(b, "="))
	return e1 == nil && e2 == nil && string(x) == string(y)
}

// ---------------------------------------------------------------------------------------

type c12Policy struct {
	mode      string
	hosts     []string
	split     bool
	template  string
	noUser    bool
	userName  string // the user-name claim
	sub       string
	queryKey  string
	issuer    string
	hostParam string
	paramKind string
}

// expectHost is the host-selection policy as the property states it. ok=false: 400.
func (p *c12Policy) expectHosts() (cands []string, ok bool) {
	subst := func(h string) string { return strings.Replace(h, "{{ preferred_username }}", p.userName, 1) }
	listed := func(h string) bool {
		for _, x := range p.hosts {
			if x == h {
				return true
			}
		}
		return false
	}
	switch p.mode {
	case "roundrobin":
		for _, h := range p.hosts {
			cands = append(cands, subst(h))
		}
		return cands, true
	case "unsigned":
		if p.paramKind == "absent" || !listed(p.hostParam) {
			return nil, false
		}
		return []string{subst(p.hostParam)}, true
	case "any":
		if p.paramKind == "absent" {
			return nil, false
		}
		return []string{subst(p.hostParam)}, true
	case "signed":
		switch p.paramKind {
		case "signed-listed":
			return []string{subst(p.hostParam)}, true
		}
		return nil, false
	}
	return nil, false
}

func queryToken(key []byte, sub, iss string, exp time.Time) string {
	e := exp.Unix()
	pl, _ := json.Marshal(map[string]any{"sub": sub, "iss": iss, "exp": e})
	return codec.SignJWS([]byte(`{"alg":"HS256","typ":"JWT"}`), pl, "HS256", key)
}

// runC12: the download endpoint under every selection mode, session state and option.
func runC12(c *Ctx) {
	cfg := webConfig(c)
	pol := &c12Policy{}
	pol.mode = []string{"roundrobin", "unsigned", "any", "signed"}[c.T.Choose(4)]
	placeholder := c.T.Bool(1, 3)
	// (host entries as administrators write them: lower case, or with capitals)
	pol.hosts = []string{"host-a.test:3389", []string{"host-b.test:3390", "RDS-B.Corp.Test:3390"}[c.T.Choose(2)]}
	if placeholder {
		pol.hosts = []string{"{{ preferred_username }}.desk.test:3389"}
		if c.T.Bool(1, 2) {
			pol.hosts = append(pol.hosts, "host-a.test:3389")
		}
	}
	cfg.Hosts = pol.hosts
	cfg.HostSelection = pol.mode
	pol.userName = []string{"alice", "bob@corp.test", "carol@a@b"}[c.T.Choose(3)]
	pol.sub = pol.userName
	if c.T.Bool(1, 3) {
		pol.sub = "f3a1-uuid-" + pol.userName
	}
	pol.split = c.T.Bool(1, 3)
	pol.noUser = c.T.Bool(1, 5)
	pol.template = []string{"", "", "{{ username }}", `CORP\{{ username }}`}[c.T.Choose(4)]
	cfg.SplitUserDomain, cfg.NoUsername, cfg.UsernameTemplate = pol.split, pol.noUser, pol.template
	pol.issuer = "portal.test"
	if pol.mode == "signed" {
		pol.queryKey = "querykey-querykey-querykey-query"
		cfg.QuerySigningKey, cfg.QueryIssuer = pol.queryKey, pol.issuer
	}
	if !bootWeb(c, cfg) {
		return
	}
	// host query parameter
	now := time.Now()
	var qExp time.Time
	qShort := false
	switch pol.mode {
	case "signed":
		kinds := []string{"signed-listed", "signed-unlisted", "forged-key", "expired", "wrong-issuer", "absent", "plain-host"}
		pol.paramKind = kinds[c.T.Choose(len(kinds))]
		key := []byte(pol.queryKey)
		h := pol.hosts[c.T.Choose(len(pol.hosts))]
		switch pol.paramKind {
		case "signed-listed":
			pol.hostParam = h
		case "signed-unlisted":
			pol.hostParam = "evil.test:3389"
		case "forged-key":
			pol.hostParam, key = h, []byte("another-key-another-key-another-k")
		case "plain-host":
			pol.hostParam = h
		}
		tokHost := pol.hostParam
		var tok string
		switch pol.paramKind {
		case "expired":
			tokHost = h
			// expired well beyond the JOSE library's one-minute leeway: 90 s to 10 min ago
			tok = queryToken(key, tokHost, pol.issuer, now.Add(-[]time.Duration{90 * time.Second, 2 * time.Minute, 4 * time.Minute, 270 * time.Second, 10 * time.Minute}[c.T.Choose(5)]))
		case "wrong-issuer":
			tokHost = h
			tok = queryToken(key, tokHost, "someone-else", now.Add(5*time.Minute))
		case "plain-host":
			tok = h
		case "absent":
		default:
			qExp = now.Add(5 * time.Minute)
			if pol.paramKind == "signed-listed" && c.T.Bool(2, 3) {
				// a query token that is about to lapse: good now, presented again when it is over
				qExp = now.Add(time.Duration(30+c.T.Choose(31)) * time.Second)
				qShort = true
			}
			tok = queryToken(key, tokHost, pol.issuer, qExp)
		}
		pol.hostParam = tokHost
		if pol.paramKind == "expired" || pol.paramKind == "wrong-issuer" {
			pol.hostParam = h
		}
		c.Arg = map[string]string{"q": tok}
	default:
		kinds := []string{"absent", "listed", "unlisted"}
		pol.paramKind = kinds[c.T.Choose(3)]
		switch pol.paramKind {
		case "listed":
			pol.hostParam = pol.hosts[c.T.Choose(len(pol.hosts))]
		case "unlisted":
			pol.hostParam = []string{"evil.test:3389", "host-a.test:3388", "host-c.test:3389", "HOST-A.TEST:3389"}[c.T.Choose(4)]
		}
		c.Arg = map[string]string{"q": pol.hostParam}
	}
	path := "/connect"
	if pol.paramKind != "absent" {
		path += "?host=" + url.QueryEscape(c.Arg["q"])
	}
	// the requesting client address: peer or first X-Forwarded-For element
	clientIP := []string{"10.2.0.5", "2001:db8::5", "192.0.2.77", "2001:db8::7:20", "fe80::1:2", "::ffff:10", "::ffff:198.51.100.7", "2001:DB8::7", "2001:0db8:0:0:0:0:0:7", "010.2.0.5"}[c.T.Choose(10)]
	b := c.W.NewBrowser("b1", peerOf(clientIP, 51000))
	b.VaryPort = c.T.Bool(1, 2)
	c.W.IdP.NoExpiresIn = c.T.Bool(1, 4)
	// (spellings a proxy may forward that are not the canonical text of the address travel in
	// X-Forwarded-For only: a TCP peer address is always canonical)
	if c.T.Bool(1, 3) || clientIP != canonicalIP(clientIP) {
		b.From = "10.200.0.1:4000"
		b.XFF = clientIP + ", 10.200.0.9"
	}
	defer func() {
		c.Res.CaseKey = fmt.Sprintf("%s/%v/%s/%s/%s/%v/%q/%v/%s/%s", pol.mode, pol.hosts, pol.paramKind, pol.userName, pol.sub, pol.split, pol.template, pol.noUser, clientIP, b.XFF)
	}()
	descr := fmt.Sprintf("mode=%s hosts=%v host-param{%s %q} user=%q sub=%q split=%v template=%q nousername=%v client=%s xff=%q", pol.mode, pol.hosts, pol.paramKind, pol.hostParam, pol.userName, pol.sub, pol.split, pol.template, pol.noUser, clientIP, b.XFF)
	// sessions that are new or unauthenticated get a redirect and no token
	session := c.T.Choose(3) // 0 new, 1 unauthenticated (has a session cookie), 2 authenticated
	if session <= 1 {
		if session == 1 {
			b.Get("/connect")
		}
		r := b.Get(path)
		if !toIdP(c, r) || leaksToken(r) {
			c.S.Fail("C12", "file-to-unauthenticated", "%s: session-state=%d got %d (token in response: %v) instead of a redirect to the provider", descr, session, r.Status, leaksToken(r))
		}
		c.S.Count("probe.unauthenticated_redirected")
		c.Res.Reach = true
		c.Samplef("%s session=%s -> %d %s", descr, []string{"new", "unauthenticated"}[session], r.Status, r.Header.Get("Location"))
		return
	}
	user := &env.IdPUser{Sub: pol.sub, Claims: map[string]any{"preferred_username": pol.userName}}
	// the login may happen from another address than the download (roaming client, other
	// proxy): the file must bind the address of the request that obtains it
	dlFrom, dlXFF := b.From, b.XFF
	if c.T.Bool(1, 3) {
		b.From, b.XFF = "198.51.100.44:50123", ""
		descr += " login-from=198.51.100.44"
	}
	// some providers issue access tokens of several kilobytes; a session that cannot hold one
	// may fail to be established, but a file that is issued must still carry that token
	bigToken := c.T.Bool(1, 8)
	if bigToken {
		c.W.IdP.TokenPad = 2500 + c.T.Choose(6000)
		descr += fmt.Sprintf(" idp-access-token-of-%d-characters", c.W.IdP.TokenPad)
	}
	ok0, cb := b.Login("/connect", user)
	c.W.IdP.TokenPad = 0
	b.From, b.XFF = dlFrom, dlXFF
	if !ok0 && bigToken {
		c.S.Count("probe.session_too_large_for_store")
		c.Res.Reach = true
		c.Samplef("%s session=login-failed(%d): nothing issued", descr, cb.Status)
		return
	}
	if !ok0 {
		c.S.Fail("C13", "valid-login-not-authenticated", "%s: login failed: callback %d %.100q", descr, cb.Status, cb.Body)
		return
	}
	var idpToken string
	for t, v := range c.W.IdP.Tokens {
		if v.Sub == pol.sub {
			idpToken = t
		}
	}
	issuedAt := time.Now()
	r := b.Get(path)
	cands, ok := pol.expectHosts()
	if !ok {
		if gotFile(r) || r.Status != 400 {
			c.S.Fail("C12", "file-for-refused-host:"+pol.mode+":"+pol.paramKind, "%s: the selection policy refuses this request but the endpoint answered %d (file=%v)", descr, r.Status, gotFile(r))
		}
		c.S.Count("probe.refused." + pol.mode + "." + pol.paramKind)
		c.Res.Reach = true
		c.Samplef("%s session=authenticated -> %d (policy refuses)", descr, r.Status)
		return
	}
	if !gotFile(r) {
		c.S.Fail("C12", "no-file:"+pol.mode+":"+pol.paramKind, "%s: the policy allows the request but the endpoint answered %d %.100q", descr, r.Status, r.Body)
		return
	}
	f := env.ParseRDP(r.Body)
	if len(f.Bad) > 0 {
		c.S.Fail("C12", "malformed-file", "%s: malformed lines %q", descr, f.Bad)
		return
	}
	host := f.Values["full address"]
	inC := false
	for _, h := range cands {
		if h == host {
			inC = true
		}
	}
	if !inC {
		c.S.Fail("C12", "host-not-by-policy:"+pol.mode, "%s: file targets %q, the policy allows %q", descr, host, cands)
		return
	}
	if gh := f.Values["gatewayhostname"]; gh != "gw.test:8443" {
		c.S.Fail("C12", "gateway-name", "%s: gatewayhostname is %q, configured gw.test:8443", descr, gh)
		return
	}
	tok := f.Values["gatewayaccesstoken"]
	hdr, claims, okTok := codec.SplitJWS(tok)
	if !okTok || !codec.VerifyHS256(tok, []byte(cfg.PAASigningKey)) || hdr["alg"] != "HS256" {
		c.S.Fail("C12", "token-not-verifiable", "%s: the issued token is not a compact HS256 JWS under the configured key", descr)
		return
	}
	wantUser := pol.userName
	if pol.split {
		wantUser = strings.SplitN(pol.userName, "@", 2)[0]
	}
	exp, _ := claims["exp"].(float64)
	bad := ""
	switch {
	case claims["remoteServer"] != host:
		bad = fmt.Sprintf("remoteServer=%v, file host=%q", claims["remoteServer"], host)
	case claims["sub"] != wantUser:
		bad = fmt.Sprintf("sub=%v, session user=%q", claims["sub"], wantUser)
	case claims["clientIp"] != clientIP:
		bad = fmt.Sprintf("clientIp=%v, requesting client=%q", claims["clientIp"], clientIP)
	case claims["accessToken"] != idpToken:
		bad = fmt.Sprintf("accessToken=%v, session's=%q", claims["accessToken"], idpToken)
	case claims["iss"] != "rdpgw":
		bad = fmt.Sprintf("iss=%v", claims["iss"])
	case int64(exp) > issuedAt.Unix()+301 || int64(exp) < issuedAt.Unix():
		bad = fmt.Sprintf("exp=%d, issued at %d", int64(exp), issuedAt.Unix())
	}
	if bad != "" {
		c.S.Fail("C12", "token-claims", "%s: token claims do not bind the session: %s", descr, bad)
		return
	}
	// user name / domain lines
	wantName := wantUser
	if pol.template != "" {
		wantName = strings.Replace(pol.template, "{{ username }}", wantUser, 1)
	}
	if pol.noUser {
		if u, has := f.Values["username"]; has && u != "" {
			c.S.Fail("C12", "username-not-suppressed", "%s: username line %q although suppressed", descr, u)
			return
		}
	} else if f.Values["username"] != wantName {
		c.S.Fail("C12", "username-line", "%s: username line %q, expected %q", descr, f.Values["username"], wantName)
		return
	}
	c.S.Count("probe.file_issued." + pol.mode)
	if c.T.Bool(1, 6) && len(r.Body) > 40 {
		// the download broke off somewhere and the client resumes it a moment later (Range with
		// If-Range on what the first answer said about the file): whatever the client ends up
		// with must be ONE connection file whose token verifies
		cut := 1 + c.T.Choose(len(r.Body)-1)
		c.S.Advance(time.Duration(c.T.Choose(4)) * time.Second)
		hd := [][2]string{{"Range", fmt.Sprintf("bytes=%d-", cut)}}
		if lm := r.Header.Get("Last-Modified"); lm != "" {
			hd = append(hd, [2]string{"If-Range", lm})
		} else if et := r.Header.Get("Etag"); et != "" {
			hd = append(hd, [2]string{"If-Range", et})
		}
		r3 := b.Request("GET", path, hd)
		c.S.Count("probe.download_resumed_with_range")
		if r3.Status == 206 && len(hd) == 2 {
			whole := append(append([]byte{}, r.Body[:cut]...), r3.Body...)
			f3 := env.ParseRDP(whole)
			t3 := f3.Values["gatewayaccesstoken"]
			if _, _, ok3 := codec.SplitJWS(t3); !ok3 || !codec.VerifyHS256(t3, []byte(cfg.PAASigningKey)) || len(f3.Bad) > 0 {
				c.S.Fail("C12", "resumed-download-spliced", "%s: the download was cut after %d bytes and resumed with If-Range; the gateway answered 206 with the tail of ANOTHER file: the assembled file's token does not verify (a connection file is generated afresh for every request)", descr, cut)
				return
			}
		}
	}
	// history: the same user downloads again shortly afterwards from another address in a new
	// session (fresh IdP access token): the second file must bind the second request
	if c.T.Bool(1, 2) && pol.mode != "signed" {
		c.S.Advance(time.Duration(c.T.Choose(50)) * time.Second)
		ip2 := []string{"10.2.7.7", "2001:db8::77", "192.0.2.78"}[c.T.Choose(3)]
		b2 := c.W.NewBrowser("b2", peerOf(ip2, 51500))
		var tok2idp string
		if c.T.Bool(1, 3) {
			// ... or in the SAME session: a roaming client whose address changed keeps its cookie
			for k, v := range b.Jar {
				b2.Jar[k] = v
			}
			tok2idp = idpToken
			descr += " second-download-in-the-same-session-from-" + ip2
		} else {
			if ok, cb := b2.Login("/connect", user); !ok {
				c.S.Fail("C13", "valid-login-not-authenticated", "%s: second login failed: callback %d", descr, cb.Status)
				return
			}
			for t, v := range c.W.IdP.Tokens {
				if v.Sub == pol.sub && t != idpToken {
					tok2idp = t
				}
			}
		}
		r2 := b2.Get(path)
		if !gotFile(r2) {
			c.S.Fail("C12", "no-file:second-download", "%s: second download from %s answered %d", descr, ip2, r2.Status)
			return
		}
		f2 := env.ParseRDP(r2.Body)
		_, cl2, ok2 := codec.SplitJWS(f2.Values["gatewayaccesstoken"])
		if !ok2 || cl2["clientIp"] != ip2 || cl2["accessToken"] != tok2idp || cl2["remoteServer"] != f2.Values["full address"] {
			c.S.Fail("C12", "token-claims:second-download", "%s: a second download by the same user from %s (new session, IdP token %q) got a token with clientIp=%v accessToken=%v remoteServer=%v (file host %q)", descr, ip2, tok2idp, cl2["clientIp"], cl2["accessToken"], cl2["remoteServer"], f2.Values["full address"])
			return
		}
		c.S.Count("probe.second_download_checked")
		if c.T.Bool(1, 2) {
			// replay the second file instead of the first
			b, tok, host = b2, f2.Values["gatewayaccesstoken"], f2.Values["full address"]
		}
	}
	// the issued host and token, presented unmodified from the same address, must work
	replay := "n/a"
	if pol.mode != "signed" {
		c.S.Advance(time.Duration(c.T.Choose(240)) * time.Second)
		if c.W.Host[host] == nil {
			c.W.AddHost(host, [][]byte{[]byte("welcome")})
		}
		tr := []string{"ws", "legacy"}[c.T.Choose(2)]
		if c.T.Bool(1, 4) {
			// history: a first presentation falls into an outage of the identity provider and
			// is refused; once the provider is back the same file must work
			c.W.IdP.UserinfoFault = []string{"5xx", "refuse", "garbage"}[c.T.Choose(3)]
			p0 := &TunPlan{Name: "t9", Transport: tr, From: b.From, XFF: b.XFF, ConnID: "{C12-0009}", CloseAfter: -1}
			p0.Pkts = []CPkt{PHandshake(ServerCapsOf(true, false), 1, 0), PTunnelCreate(tok, false)}
			t0 := StartTunnels(c, []*TunPlan{p0})
			RunTunnels(c, t0, 3000)
			c.S.Draining = false
			t0[0].Client.CloseAll(false)
			c.W.IdP.UserinfoFault = ""
			c.S.Advance(time.Duration(1+c.T.Choose(20)) * time.Second)
			descr += " first-presentation-during-idp-outage"
			c.S.Count("fault.idp.outage_at_first_presentation")
		}
		p := &TunPlan{Name: "t0", Transport: tr, From: b.From, XFF: b.XFF, ConnID: "{C12-0000}", AllowedHost: host, CloseAfter: -1}
		p.Pkts = []CPkt{PHandshake(ServerCapsOf(true, false), 1, 0), PTunnelCreate(tok, true), PTunnelAuth("n"), PChannel(host, HostAllowed), PData([]byte("ping"))}
		if c.T.Bool(1, 4) {
			// the identity provider is slow today: it answers the gateway's question about the
			// token after some seconds
			c.W.IdP.UserinfoDelay = time.Duration(1+c.T.Choose(8)) * time.Second
			descr += fmt.Sprintf(" userinfo-answers-after-%v", c.W.IdP.UserinfoDelay)
		}
		tuns := StartTunnels(c, []*TunPlan{p})
		RunTunnels(c, tuns, 3000)
		c.W.IdP.UserinfoDelay = 0
		t := tuns[0]
		t.Hosts = append(t.Hosts, c.W.Host[host])
		mc := ModelCfg{TokenAuth: true, ServerCaps: ServerCapsOf(true, false)}
		CheckTunnel(c, t, mc, "C12")
		if v := c.S.Viol; v != nil {
			sig := "issued-file-rejected:" + v.Sig
			if placeholder && pol.sub != pol.userName && strings.Contains(host, pol.userName) {
				sig = "issued-file-rejected:placeholder-and-sub-differs-from-username"
			}
			v.Msg = fmt.Sprintf("%s: the issued host %q and token, replayed unmodified from the same address over %s, were not accepted: %s/%s %s", descr, host, tr, v.Oracle, v.Sig, v.Msg)
			v.Oracle, v.Sig = "C12", sig
			return
		}
		replay = "accepted over " + tr
		c.S.Count("probe.replay_accepted")
	}
	if qShort && c.S.Viol == nil {
		// the query token was honoured while it was valid; presented again after its expiry (and
		// the JOSE library's minute of leeway), by the same or by another signed-in session, it
		// must not yield a file any more
		if d := time.Until(qExp.Add(time.Minute + time.Duration(5+c.T.Choose(116))*time.Second)); d > 0 {
			c.S.Advance(d)
		}
		bq := b
		if c.T.Bool(1, 2) {
			bq = c.W.NewBrowser("b5", "10.2.0.77:51300")
			if ok, cb5 := bq.Login("/connect", &env.IdPUser{Sub: "sub-erin", Claims: map[string]any{"preferred_username": "erin"}}); !ok {
				c.S.Fail("C13", "valid-login-not-authenticated", "%s: login of a second user failed: callback %d", descr, cb5.Status)
				return
			}
		}
		r2 := bq.Get(path)
		if gotFile(r2) {
			c.S.Fail("C12", "file-for-lapsed-query-token", "%s: the signed host token lapsed %v ago (beyond the minute of leeway), it was honoured once while valid, and presented again by %s it still yields a connection file", descr, time.Since(qExp).Round(time.Second), bq.Name)
			return
		}
		descr += fmt.Sprintf(" query-token-presented-again-%v-after-expiry->%d", time.Since(qExp).Round(time.Second), r2.Status)
		c.S.Count("probe.lapsed_query_token_presented_again")
	}
	c.Res.Reach = true
	c.Samplef("%s session=authenticated -> file{full address=%q username=%q domain=%q} token{sub=%v clientIp=%v exp-iat=%ds} replay=%s", descr, host, f.Values["username"], f.Values["domain"], claims["sub"], claims["clientIp"], int64(exp)-issuedAt.Unix(), replay)
}
