package scen

import (
	"encoding/base64"
	"encoding/binary"
	"fmt"
	"strings"
	"time"

	"simh/codec"
	"simh/env"

	authconfig "github.com/bolkedebruin/rdpgw/cmd/auth/config"
)

func init() {
	Register("c10", runC10)
}

type hostileCtx struct {
	c      *Ctx
	tw     *TunWorld
	mechs  []string
	node   *env.AuthNode
	n      int
	kinds  []string
	panics int
}

func (h *hostileCtx) has(m string) bool {
	for _, x := range h.mechs {
		if x == m {
			return true
		}
	}
	return false
}

// runC10: malformed HTTP, Authorization, NTLM, packet, legacy-ordering and KDC-proxy inputs
// under a drawn configuration; after every hostile input the log must show no recovered
// panic, the nodes must be alive (a process death is caught by the driver) and a fresh
// benign client must be served.
func runC10(c *Ctx) {
	h := &hostileCtx{c: c}
	h.mechs = [][]string{{"openid"}, {"ntlm"}, {"openid", "ntlm"}, {"kerberos"}, {"openid", "kerberos"}}[c.T.Choose(5)]
	tw := PlanTunnels(c, TunOpts{N: 1, Transports: []string{"ws", "legacy"}})
	h.tw = tw
	tw.Cfg.Authentication = h.mechs
	tw.Cfg.Hosts = append(tw.Cfg.Hosts, "{{ preferred_username }}.desk.test:3389")
	if !h.has("openid") {
		tw.Cfg.TokenAuth = env.Bool(false)
	}
	if h.has("ntlm") {
		tw.Cfg.AuthSocket = "/sim/auth.sock"
		tw.Cfg.AuthTimeout = 3
		h.node = c.W.StartAuthNode("/sim/auth.sock", []authconfig.UserConfig{{Username: "alice", Password: "correct horse"}}, nil)
	}
	if h.has("kerberos") {
		tw.Cfg.Keytab = c.W.WriteKeytab("HTTP/gw.test", "CORP.TEST", "service-password")
		tw.Cfg.Krb5Conf = c.W.WriteKrb5Conf("CORP.TEST", map[string][]string{"CORP.TEST": {"kdc1.corp.test:88"}})
		// the realm's KDC answers properly, or with something that is not a framed reply
		if c.T.Bool(1, 2) {
			c.W.AddKDC("tcp", "kdc1.corp.test:88", "reply-close", []byte{0, 0, 0, 2, 1, 2})
		} else {
			c.W.AddKDC("tcp", "kdc1.corp.test:88", "garbage", [][]byte{{0x80 | byte(c.T.Choose(128)), 0xff, 1, 2, 3, 4}, {0xff, 0xff, 0xff, 0xff}, []byte("HTTP/1.1 400 Bad Request\r\n\r\n"), {0x7f, 0xff, 0xff, 0xff, 9}}[c.T.Choose(4)])
		}
	}
	if c.T.Bool(1, 3) {
		tw.Cfg.SendBuf, tw.Cfg.ReceiveBuf = 65536, 65536
	}
	if !BootTun(c, tw, false) {
		return
	}
	for i := 0; i < 3+c.T.Choose(5) && c.S.Viol == nil; i++ {
		kind := h.hostileInput()
		h.kinds = append(h.kinds, kind)
		c.S.Count("probe.hostile." + strings.SplitN(kind, ":", 2)[0])
		if c.S.Viol != nil {
			break
		}
		// no recovered panic, no node exit
		if p := c.W.Log.Grep("http: panic serving"); len(p) > h.panics {
			h.panics = len(p)
			c.S.Fail("C10", "panic:"+strings.SplitN(kind, ":", 2)[0], "input {%s} made a handler panic (recovered by net/http, connection dropped): %s", kind, firstLine(p[len(p)-1]))
			break
		}
		if c.W.GW.Exited {
			c.S.Fail("C10", "gateway-exit:"+strings.SplitN(kind, ":", 2)[0], "input {%s} made the gateway exit: %s", kind, c.W.GW.ExitLine)
			break
		}
		h.liveness(kind)
	}
	c.Res.Reach = len(h.kinds) >= 3
	c.Res.CaseKey = strings.Join(h.mechs, "+") + " " + strings.Join(h.kinds, " ")
	c.Samplef("auth=%s buffers=%d: %s", strings.Join(h.mechs, "+"), tw.Cfg.SendBuf, strings.Join(h.kinds, " | "))
}

// liveness: a fresh benign client is served after the hostile input.
func (h *hostileCtx) liveness(after string) {
	c := h.c
	h.n++
	switch {
	case h.has("openid") && len(h.mechs) == 1:
		p := &TunPlan{Name: fmt.Sprintf("live%d", h.n), Transport: []string{"ws", "legacy"}[h.n%2], From: fmt.Sprintf("10.8.0.%d:41000", h.n), ConnID: fmt.Sprintf("{LIVE-%d}", h.n), User: "user0", AllowedHost: h.tw.Plans[0].AllowedHost, CloseAfter: -1}
		p.AccessToken = h.tw.Plans[0].AccessToken
		p.Pkts = []CPkt{PHandshake(h.tw.MC.ServerCaps, 1, 0), PTunnelCreate(ValidCookie(c, h.tw, p, p.AllowedHost), true)}
		tuns := StartTunnels(c, []*TunPlan{p})
		t := tuns[0]
		c.S.Run(func() bool { return t.Client.Failed != "" || t.Err != "" || len(t.Client.Packets()) >= 2 }, 4000, 20*time.Second)
		if len(t.Client.Packets()) < 2 || t.Client.Packets()[1].Pkt.Status != 0 {
			c.S.Fail("C10", "wedged-after:"+strings.SplitN(after, ":", 2)[0], "after input {%s} a fresh benign client is not served: %s %s", after, t.Client.Failed, t.Client.Describe())
		}
		t.Client.CloseAll(false)
	case h.has("ntlm"):
		r := c.W.Do(&env.HTTPReq{Name: fmt.Sprintf("live%d", h.n), From: fmt.Sprintf("10.8.0.%d:41000", h.n), Method: "RDG_OUT_DATA", Path: "/remoteDesktopGateway/",
			Header: [][2]string{{"Authorization", "NTLM " + base64.StdEncoding.EncodeToString(codec.NTLMNegotiate())}}})
		ok := false
		if r.Header != nil {
			for _, v := range r.Header.Values("Www-Authenticate") {
				if strings.HasPrefix(v, "NTLM ") && len(v) > 20 {
					ok = true
				}
			}
		}
		if r.Status != 401 || !ok {
			c.S.Fail("C10", "wedged-after:"+strings.SplitN(after, ":", 2)[0], "after input {%s} a fresh NTLM negotiate gets no challenge (status %d, timeout=%v): the authentication service no longer answers", after, r.Status, r.Timeout)
		}
	default:
		r := c.W.Do(&env.HTTPReq{Name: fmt.Sprintf("live%d", h.n), From: fmt.Sprintf("10.8.0.%d:41000", h.n), Path: "/metrics", Auto: true})
		if r.Status != 200 {
			c.S.Fail("C10", "wedged-after:"+strings.SplitN(after, ":", 2)[0], "after input {%s} /metrics is not served (status %d)", after, r.Status)
		}
	}
}

func (h *hostileCtx) do(name, raw string) *env.HTTPResult {
	h.n++
	return h.c.W.Do(&env.HTTPReq{Name: fmt.Sprintf("%s%d", name, h.n), From: fmt.Sprintf("10.9.0.%d:42000", h.n%250), RawHead: raw})
}

// hostileInput performs one hostile input and returns its description.
func (h *hostileCtx) hostileInput() string {
	c := h.c
	t := c.T
	gwPath := "/remoteDesktopGateway/"
	switch t.Choose(10) {
	case 0: // request lines and headers to any endpoint
		paths := []string{"/", "/connect", "/callback", "/callback?state=x&code=y", "/tokeninfo", "/tokeninfo?access_token=" + strings.Repeat("A", 3000), "/metrics", gwPath, "/KdcProxy", "/remoteDesktopGateway", "/%zz", "/connect?host=%00"}
		methods := []string{"GET", "POST", "RDG_OUT_DATA", "RDG_IN_DATA", "OPTIONS", "\x00\x01", "GET GET", strings.Repeat("M", 300)}
		p, m := paths[t.Choose(len(paths))], methods[t.Choose(len(methods))]
		extra := []string{"", "Cookie: RDPGWSESSION=garbage\r\n", "X-Forwarded-For: " + strings.Repeat("1.2.3.4, ", 200) + "\r\n", "Rdg-Connection-Id: \x7f\xff\r\n", "Content-Length: -5\r\n", "Transfer-Encoding: chunked\r\nContent-Length: 3\r\n", "Upgrade: websocket\r\nConnection: Upgrade\r\n", "Host: \r\n",
			// header values that are not UTF-8 (legal octets in a field value), short and long
			"User-Agent: MS-RDGateway/\xff\xfe\xfd 1.0\r\n", "User-Agent: J\xfcrgens Client/" + strings.Repeat("\xc3", 41) + "\r\n", "Accept-Language: \xe4\xf6\xfc\r\nReferer: \x80\x81\r\n", "User-Agent: " + strings.Repeat("x", 31) + "\xc3\xa4 rest\r\n"}[t.Choose(12)]
		h.do("raw", fmt.Sprintf("%s %s HTTP/1.1\r\nHost: gw.test\r\nConnection: close\r\n%s\r\n", m, p, extra))
		return fmt.Sprintf("http:%q %q +%q", m, p, strings.SplitN(extra, ":", 2)[0])
	case 1: // Authorization header strings for every scheme
		auths := []string{"NTLM", "NTL", "NTLM ", "NTLM !!!", "Negotiate", "Negotiat", "Negotiate ", "Negotiate " + strings.Repeat("A", 5000), "Basic", "Basic ", "Basic !!!", "Basic " + base64.StdEncoding.EncodeToString([]byte("nocolon")),
			"Bearer x", "ntlm abc", "N", " ", "NTLM\t", "NTLM " + base64.StdEncoding.EncodeToString(t.Bytes(1+t.Choose(60), 3)), "Negotiate " + base64.StdEncoding.EncodeToString(t.Bytes(1+t.Choose(200), 4)), "xxNTLMxx", "NegotiateNTLM"}
		a := auths[t.Choose(len(auths))]
		m := []string{"RDG_OUT_DATA", "RDG_IN_DATA", "GET", "POST"}[t.Choose(4)]
		h.do("auth", fmt.Sprintf("%s %s HTTP/1.1\r\nHost: gw.test\r\nConnection: close\r\nAuthorization: %s\r\n\r\n", m, gwPath, a))
		return fmt.Sprintf("authorization:%q via %s", trunc(a, 40), m)
	case 2: // NTLM messages handed to the authentication service
		var msg []byte
		kind := ""
		t1 := codec.NTLMNegotiate()
		nt, lm, sbk := codec.NTLMv2Response("alice", "x", "", []byte("12345678"), []byte("abcdefgh"), []byte{0, 0, 0, 0}, time.Now())
		t3 := codec.NTLMAuthenticate("alice", "", "WS", nt, lm, sbk)
		switch t.Choose(12) {
		case 6, 10:
			// a well-formed authenticate message in one of the shorter layouts (without MIC,
			// without Version and MIC, or without session key and flags, as older clients send them), for an existing or unknown user,
			// with or without the session-key field
			user := []string{"alice", "alice", "nobody"}[t.Choose(3)]
			ek := []byte("0123456789abcdef")
			if t.Bool(1, 2) {
				ek = nil
			}
			form := 1 + t.Choose(3)
			msg = codec.NTLMAuthenticateForm(user, "", "WS", nt, lm, codec.NTLMDefaultFlags, ek, form)
			kind = fmt.Sprintf("type3-short-layout-%d(%s,key=%d)", form, user, len(ek))
		case 7, 8:
			// a proper message with one to three random bytes changed, possibly cut short
			src, name := t1, "type1"
			if t.Bool(1, 2) {
				src, name = t3, "type3"
			}
			msg = append([]byte{}, src...)
			if t.Bool(1, 2) {
				msg = msg[:t.Choose(len(msg)+1)]
			}
			for k := 1 + t.Choose(3); k > 0 && len(msg) > 0; k-- {
				msg[t.Choose(len(msg))] = byte(t.Choose(256))
			}
			kind = name + "-bytes-mutated"
		case 9:
			// a negotiate message with arbitrary flags, shorter than the fixed part
			msg = append([]byte{}, t1...)
			binary.LittleEndian.PutUint32(msg[12:], uint32(t.Choose(1<<30))<<2|uint32(t.Choose(4)))
			msg = msg[:16+t.Choose(17)]
			kind = "type1-random-flags-short"
		case 0:
			msg, kind = t1[:t.Choose(len(t1))], "type1-truncated"
		case 1:
			msg, kind = t3[:t.Choose(len(t3))], "type3-truncated"
		case 2:
			// field offsets/lengths pointing outside the message
			msg = append([]byte{}, t3...)
			f := 12 + 8*t.Choose(6)
			binary.LittleEndian.PutUint16(msg[f:], uint16(t.Choose(0x10000)))
			binary.LittleEndian.PutUint16(msg[f+2:], uint16(t.Choose(0x10000)))
			binary.LittleEndian.PutUint32(msg[f+4:], uint32(t.Choose(1<<30)))
			kind = fmt.Sprintf("type3-field@%d-outside", f)
		case 3:
			msg = append([]byte{}, t1...)
			binary.LittleEndian.PutUint32(msg[12:], 0xffffffff) // all flags: domain/workstation/version supplied
			msg = msg[:16+t.Choose(len(msg)-16)]
			kind = "type1-all-flags-truncated"
		case 4:
			msg = append([]byte{}, t3...)
			binary.LittleEndian.PutUint32(msg[8:], uint32(t.Choose(6)))
			kind = "wrong-message-type"
		case 5:
			msg = append([]byte{}, t3...)
			// NT response too short for an NTLMv2 response structure
			binary.LittleEndian.PutUint16(msg[20:], uint16(t.Choose(40)))
			binary.LittleEndian.PutUint16(msg[22:], uint16(t.Choose(40)))
			kind = "type3-short-nt-response"
		default:
			msg, kind = t.Bytes(1+t.Choose(120), 8), "random"
			copy(msg, "NTLMSSP\x00")
		}
		if !h.has("ntlm") {
			// no NTLM route in this configuration: the header must simply be refused
			h.do("ntlm", fmt.Sprintf("RDG_OUT_DATA %s HTTP/1.1\r\nHost: gw.test\r\nConnection: close\r\nAuthorization: NTLM %s\r\n\r\n", gwPath, base64.StdEncoding.EncodeToString(msg)))
			return "ntlm-without-route:" + kind
		}
		scheme := []string{"NTLM", "Negotiate"}[t.Choose(2)]
		// optionally after a proper negotiate on the same connection, so that a session exists
		withSession := t.Bool(1, 2)
		h.n++
		e, err := c.W.S.Connect(fmt.Sprintf("ntlm%d", h.n), fmt.Sprintf("10.9.1.%d:43000", h.n%250), c.W.GW.Addr)
		if err != nil {
			c.Infra("connect: %v", err)
			return "ntlm:" + kind
		}
		e.Opaque, e.Peer.Opaque = true, true
		req := func(m []byte) []byte {
			return []byte(fmt.Sprintf("RDG_OUT_DATA %s HTTP/1.1\r\nHost: gw.test\r\nAuthorization: %s %s\r\n\r\n", gwPath, scheme, base64.StdEncoding.EncodeToString(m)))
		}
		if withSession {
			e.Send(req(t1))
			c.S.Run(func() bool { return strings.Contains(string(e.Recv), "\r\n\r\n") }, 3000, 10*time.Second)
			c.S.Run(nil, 50, 50*time.Millisecond)
		}
		before := len(e.Recv)
		e.Send(req(msg))
		c.S.Run(func() bool { return strings.Contains(string(e.Recv[before:]), "\r\n\r\n") || e.EOFSeen }, 3000, 10*time.Second)
		e.Shut()
		return fmt.Sprintf("ntlm:%s scheme=%s after-negotiate=%v", kind, scheme, withSession)
	case 3, 4: // packet streams on a tunnel, before or after the authorisation sequence
		return h.hostilePackets()
	case 9: // a burst of logins while the authentication service is slower than the gateway waits
		if !h.has("ntlm") || h.node == nil {
			r := h.do("hdr", fmt.Sprintf("RDG_OUT_DATA %s HTTP/1.1\r\nHost: gw.test\r\nConnection: close\r\nAuthorization: NTLM\r\n\r\n", gwPath))
			_ = r
			return "ntlm-bare-keyword"
		}
		nreq := 9 + t.Choose(8)
		h.node.SlowBy = time.Duration(4+t.Choose(5)) * time.Second
		var ps []*env.Pending
		for k := 0; k < nreq; k++ {
			h.n++
			ps = append(ps, c.W.Start(&env.HTTPReq{Name: fmt.Sprintf("burst%d", h.n), From: fmt.Sprintf("10.9.7.%d:%d", 1+k, 44000+k), Method: "RDG_OUT_DATA", Path: gwPath,
				Header: [][2]string{{"Authorization", "NTLM " + base64.StdEncoding.EncodeToString(codec.NTLMNegotiate())}}}))
		}
		c.W.WaitAll(ps, 30*time.Second)
		h.node.SlowBy = 0
		c.S.Run(nil, 200, 2*time.Second)
		c.S.Count("fault.authnode.slow_during_a_burst_of_logins")
		return fmt.Sprintf("ntlm-burst:%d logins while the authentication service needs longer than the gateway waits", nreq)
	case 5: // ordering of the legacy requests
		h.n++
		id := fmt.Sprintf("{HOSTILE-%d}", h.n)
		from := fmt.Sprintf("10.9.2.%d:44000", h.n%250)
		cl := c.W.NewTunClient(fmt.Sprintf("leg%d", h.n), "legacy", from, id)
		h.authorize(cl)
		order := []string{"in-first", "in-twice", "out-twice", "in-only-then-packets"}[t.Choose(4)]
		switch order {
		case "in-first", "in-only-then-packets":
			cl.OpenIn("")
			c.S.Run(func() bool { return cl.Status("in") != 0 || cl.Failed != "" }, 3000, 5*time.Second)
			if cl.In != nil && cl.Status("in") == 200 {
				cl.In.Send(codec.Chunk([]byte{0}))
				cl.In.Send(codec.Chunk(codec.HandshakeRequest(1, 0, 0, h.tw.MC.ServerCaps)))
				c.S.Run(nil, 200, 2*time.Second)
			}
			if order == "in-first" {
				cl.OpenOut()
				c.S.Run(nil, 200, 2*time.Second)
			}
		case "in-twice":
			cl.OpenOut()
			c.S.Run(func() bool { return cl.Status("out") != 0 || cl.Failed != "" }, 3000, 5*time.Second)
			cl.OpenIn("")
			c.S.Run(func() bool { return cl.Status("in") != 0 || cl.Failed != "" }, 3000, 5*time.Second)
			cl2 := c.W.NewTunClient(fmt.Sprintf("leg%db", h.n), "legacy", from, id)
			h.authorize(cl2)
			cl2.OpenIn("")
			c.S.Run(nil, 300, 2*time.Second)
			cl2.CloseAll(false)
		case "out-twice":
			cl.OpenOut()
			cl2 := c.W.NewTunClient(fmt.Sprintf("leg%db", h.n), "legacy", from, id)
			h.authorize(cl2)
			cl2.OpenOut()
			c.S.Run(nil, 300, 2*time.Second)
			cl2.CloseAll(false)
		}
		c.S.Run(nil, 100, time.Second)
		cl.CloseAll(false)
		c.S.Run(nil, 100, time.Second)
		return "legacy-order:" + order
	case 6: // websocket-level oddities after a successful upgrade
		h.n++
		cl := c.W.NewTunClient(fmt.Sprintf("wsx%d", h.n), "ws", fmt.Sprintf("10.9.3.%d:45000", h.n%250), fmt.Sprintf("{WSX-%d}", h.n))
		h.authorize(cl)
		cl.OpenWS()
		c.S.Run(func() bool { return cl.Ready || cl.Failed != "" }, 3000, 10*time.Second)
		kind := "not-upgraded"
		if cl.Ready {
			frames := map[string][]byte{
				"text-frame":        codec.WSFrame(true, codec.WSText, []byte("hello"), cl.Mask()),
				"ping":              codec.WSFrame(true, codec.WSPing, []byte("p"), cl.Mask()),
				"close":             codec.WSFrame(true, codec.WSClose, []byte{3, 232}, cl.Mask()),
				"reserved-bits":     {0xF2, 0x80, 1, 2, 3, 4},
				"unmasked":          {0x82, 0x03, 1, 2, 3},
				"huge-length":       {0x82, 0xFF, 0x7f, 0xff, 0xff, 0xff, 0xff, 0xff, 0xff, 0xff, 1, 2, 3, 4},
				"empty-binary":      codec.WSFrame(true, codec.WSBinary, nil, cl.Mask()),
				"continuation-only": codec.WSFrame(true, codec.WSCont, []byte("x"), cl.Mask()),
				"7-byte-binary":     codec.WSFrame(true, codec.WSBinary, []byte{1, 0, 0, 0, 7, 0, 0}, cl.Mask()),
			}
			ks := []string{"text-frame", "ping", "close", "reserved-bits", "unmasked", "huge-length", "empty-binary", "continuation-only", "7-byte-binary"}
			kind = ks[t.Choose(len(ks))]
			cl.SendWire(frames[kind])
			c.S.Run(nil, 300, 2*time.Second)
		}
		cl.CloseAll(t.Bool(1, 2))
		c.S.Run(nil, 100, time.Second)
		return "websocket:" + kind
	case 7: // KDC-proxy bodies
		body := t.Bytes(t.Choose(300), 9)
		switch t.Choose(7) {
		case 5, 6:
			// a well-formed request (what the KDC makes of it is the KDC's business)
			pl := t.Bytes(1+t.Choose(200), 7)
			body = codec.KDCProxyMessage(append([]byte{0, 0, byte(len(pl) >> 8), byte(len(pl))}, pl...), "", false)
		case 0:
			body = codec.KDCProxyMessage(nil, "", false)
		case 1:
			body = codec.KDCProxyMessage([]byte{0, 0}, "CORP.TEST", true)
		case 2:
			body = []byte{0x30, 0x84, 0xff, 0xff, 0xff, 0xff}
		case 3:
			body = codec.DerTLV(0x30, codec.DerTLV(0xA0, codec.DerTLV(0x04, []byte{0xff, 0xff, 0xff, 0xff, 1})))
		}
		h.n++
		c.W.Do(&env.HTTPReq{Name: fmt.Sprintf("kdc%d", h.n), From: "10.9.4.1:46000", Method: "POST", Path: "/KdcProxy", Body: body})
		return fmt.Sprintf("kdcproxy:%d bytes %s", len(body), short(body))
	default: // a client that disappears in the middle of a request or of the TLS-less upgrade
		h.n++
		e, err := c.W.S.Connect(fmt.Sprintf("half%d", h.n), "10.9.5.1:47000", c.W.GW.Addr)
		if err == nil {
			full := "RDG_OUT_DATA " + gwPath + " HTTP/1.1\r\nHost: gw.test\r\nConnection: Upgrade\r\nUpgrade: websocket\r\nSec-WebSocket-Version: 13\r\nSec-WebSocket-Key: AAAAAAAAAAAAAAAAAAAAAA==\r\n\r\n"
			e.Send([]byte(full[:t.Choose(len(full))]))
			c.S.Run(nil, 50, 200*time.Millisecond)
			if t.Bool(1, 2) {
				e.Reset()
			} else {
				e.Shut()
			}
			c.S.Run(nil, 100, time.Second)
		}
		return "half-request"
	}
}

func trunc(s string, n int) string {
	if len(s) > n {
		return s[:n] + "..."
	}
	return s
}

// authorize gives a hostile client what it needs to get past HTTP-level authentication in
// this configuration (NTLM credentials), so that its packets reach the tunnel code.
func (h *hostileCtx) authorize(cl *env.TunClient) {
	if h.has("ntlm") && !(h.has("openid") && len(h.mechs) == 1) {
		cl.NTLMUser, cl.NTLMPass = "alice", "correct horse"
	}
}

// hostilePackets sends a malformed packet stream on a tunnel.
func (h *hostileCtx) hostilePackets() string {
	c := h.c
	t := c.T
	h.n++
	tr := []string{"ws", "legacy"}[t.Choose(2)]
	p := &TunPlan{Name: fmt.Sprintf("hx%d", h.n), Transport: tr, From: fmt.Sprintf("10.9.6.%d:48000", h.n%250), ConnID: fmt.Sprintf("{HX-%d}", h.n), User: "user0", AllowedHost: h.tw.Plans[0].AllowedHost, CloseAfter: -1}
	p.AccessToken = h.tw.Plans[0].AccessToken
	if h.has("kerberos") && !h.has("openid") {
		return "packets:not-reachable-without-kerberos-ticket"
	}
	after := t.Bool(1, 2) && h.has("openid") && len(h.mechs) == 1
	if after {
		p.Pkts = IdealHistory(c, h.tw, p, 1, func() int { return 10 }, false)
	}
	var bad CPkt
	kind := ""
	switch t.Choose(13) {
	case 11, 12:
		// well-formed packets in an order, or with an ending, that the gateway does not expect
		// while the host of an open channel keeps sending
		return h.streamEndings(p, tr)
	case 8, 9:
		// well-formed lengths, but the UTF-16 text ends in (or consists of) unpaired
		// surrogate code units
		units := [][]byte{{0x3d, 0xd8}, {0x00, 0xd8}, {0xff, 0xdb}, {0x00, 0xdc}, {0x3d, 0xd8, 0x3d, 0xd8}, {0x41, 0x00, 0x3d, 0xd8}}
		txt := append(codec.UTF16LE([]string{"", "pc", "host-a.test", "eyJhbGciOiJIUzI1NiJ9"}[t.Choose(4)]), units[t.Choose(len(units))]...)
		switch t.Choose(3) {
		case 0:
			b := binary.LittleEndian.AppendUint32(nil, 0)
			b = binary.LittleEndian.AppendUint16(b, 1)
			b = binary.LittleEndian.AppendUint16(b, 0)
			b = binary.LittleEndian.AppendUint16(b, uint16(len(txt)))
			bad = CPkt{Kind: KTunnelCreate, Malformed: true, Bytes: codec.Packet(codec.PktTunnelCreate, append(b, txt...))}
			kind = "cookie-ending-in-lone-surrogate"
		case 1:
			bad = CPkt{Kind: KChannelCreate, Malformed: true, Bytes: codec.ChannelCreate(txt, 3389, -1)}
			kind = "host-name-ending-in-lone-surrogate"
		default:
			b := binary.LittleEndian.AppendUint16(nil, 0)
			b = binary.LittleEndian.AppendUint16(b, uint16(len(txt)))
			bad = CPkt{Kind: KTunnelAuth, Malformed: true, Bytes: codec.Packet(codec.PktTunnelAuth, append(b, txt...))}
			if t.Bool(1, 2) {
				// the layout the gateway actually reads: length first
				bad.Bytes = codec.Packet(codec.PktTunnelAuth, append(binary.LittleEndian.AppendUint16(nil, uint16(len(txt))), txt...))
			}
			kind = "client-name-ending-in-lone-surrogate"
		}
	case 10:
		// keep-alives while the host streams and the client has stopped reading
		return h.keepaliveWhileStalled(p, tr)
	case 0:
		lf := []uint32{0, 1, 7, 8, 9, 0x7fffffff, 0x80000000, 0xffffffff, 0x10000, 131073}[t.Choose(10)]
		bad = CPkt{Kind: KUnframeable, Bytes: codec.PacketRaw(uint16(t.Choose(0x14)), lf, t.Bytes(t.Choose(40), 1))}
		kind = fmt.Sprintf("length-field=%#x", lf)
	case 1:
		bad = CPkt{Kind: KUnframeable, Bytes: t.Bytes(1+t.Choose(7), 2)}
		kind = "truncated-header"
	case 2:
		bad = PUnknown(uint16(t.Choose(0x10000)), t.Bytes(t.Choose(64), 3))
		kind = fmt.Sprintf("type=%#x", bad.Type)
	case 3:
		// tunnel-create whose cookie length points beyond the body
		b := binary.LittleEndian.AppendUint32(nil, 0)
		b = binary.LittleEndian.AppendUint16(b, 1)
		b = binary.LittleEndian.AppendUint16(b, 0)
		b = binary.LittleEndian.AppendUint16(b, uint16(t.Choose(0x10000)))
		b = append(b, t.Bytes(t.Choose(20), 4)...)
		bad = CPkt{Kind: KTunnelCreate, Malformed: true, Bytes: codec.Packet(codec.PktTunnelCreate, b)}
		kind = "cookie-length-beyond-body"
	case 4:
		bad = CPkt{Kind: KChannelCreate, Malformed: true, Bytes: codec.ChannelCreate(t.Bytes(t.Choose(30), 5), uint16(t.Choose(0x10000)), t.Choose(0x10000))}
		kind = "channel-name-length-beyond-body"
	case 5:
		bad = CPkt{Kind: KData, Malformed: true, Bytes: codec.Data(t.Bytes(t.Choose(50), 6), t.Choose(0x10000))}
		kind = "data-length-beyond-body"
	case 6:
		bad = CPkt{Kind: KTunnelAuth, Malformed: true, Bytes: codec.Packet(codec.PktTunnelAuth, t.Bytes(t.Choose(6), 7))}
		kind = "tunnel-auth-short"
	default:
		bad = CPkt{Kind: KHandshake, Malformed: true, Bytes: codec.Packet(codec.PktHandshakeRequest, t.Bytes(t.Choose(6), 8))}
		kind = "handshake-short"
	}
	// a malformed body of a known request is most interesting in the phase where the
	// gateway actually parses it: put it right after the steps that lead there
	placed := ""
	if bad.Malformed && t.Bool(2, 3) && !(h.has("kerberos") && !h.has("openid") && !h.has("ntlm")) {
		ideal := IdealHistory(c, h.tw, p, 1, func() int { return 10 }, false)
		phase := map[PKind]int{KHandshake: 0, KTunnelCreate: 1, KTunnelAuth: 2, KChannelCreate: 3, KData: 4}[bad.Kind]
		p.Pkts = append([]CPkt{}, ideal[:phase]...)
		placed = fmt.Sprintf(" in-phase(after %d steps)", phase)
	}
	p.Pkts = append(p.Pkts, bad, PKeepalive(), PData([]byte("x")))
	tuns := StartTunnels(c, []*TunPlan{p})
	h.authorize(tuns[0].Client)
	c.S.Run(func() bool { return tuns[0].SentAll() || tuns[0].Client.Failed != "" }, 4000, 20*time.Second)
	c.S.Run(nil, 300, 2*time.Second)
	tuns[0].Client.CloseAll(false)
	c.S.Run(nil, 100, time.Second)
	return fmt.Sprintf("packets:%s over %s after-authorisation=%v%s", kind, tr, after, placed)
}

// streamEndings: an open channel whose host keeps sending; the client's stream then ends
// abruptly (EOF or reset at any point), or goes on after a channel close with data, another
// channel create or further closes.
func (h *hostileCtx) streamEndings(p *TunPlan, tr string) string {
	c := h.c
	if !(h.has("openid") && len(h.mechs) == 1) {
		return "packets:stream-endings(not reachable in this configuration)"
	}
	p.Pkts = IdealHistory(c, h.tw, p, 1+c.T.Choose(3), func() int { return 1 + c.T.Choose(100) }, false)
	for i := 0; i < 3+c.T.Choose(6); i++ {
		p.HostScript = append(p.HostScript, c.T.Bytes(1+c.T.Choose(3000), byte(0x30+i)))
	}
	kind := ""
	switch c.T.Choose(3) {
	case 0:
		p.CloseAfter = 4 + c.T.Choose(len(p.Pkts)-3)
		p.CloseReset = c.T.Bool(1, 2)
		kind = fmt.Sprintf("client-drops-after-%d(reset=%v)", p.CloseAfter, p.CloseReset)
	case 1:
		tail := [][]CPkt{
			{PClose(), PData([]byte("after close"))},
			{PClose(), PKeepalive(), PData([]byte("after close"))},
			{PClose(), PChannel(p.AllowedHost, HostAllowed), PData([]byte("second channel"))},
			{PClose(), PClose()},
			{PClose(), PTunnelAuth("again"), PChannel(p.AllowedHost, HostAllowed)},
		}[c.T.Choose(5)]
		p.Pkts = append(p.Pkts, tail...)
		kind = "packets-after-channel-close:" + planString(p, len(p.Pkts))
	default:
		p.Pkts = append(p.Pkts, PChannel(p.AllowedHost, HostAllowed), PData([]byte("x")), PClose())
		kind = "second-channel-create-on-open-channel"
	}
	tuns := StartTunnels(c, []*TunPlan{p})
	t := tuns[0]
	for _, hst := range t.Hosts {
		// the host, too, may end the connection while the client goes on
		switch c.T.Weighted(3, 1, 1) {
		case 1:
			hst.CloseAfterScript = true
			kind += "+host-closes"
		case 2:
			hst.ResetAfter = c.T.Choose(len(hst.Script) + 1)
			kind += "+host-resets"
		}
	}
	c.S.Run(func() bool { return t.SentAll() || t.Client.Failed != "" }, 8000, 20*time.Second)
	c.S.Run(nil, 600, 2*time.Second)
	t.Client.CloseAll(false)
	c.S.Run(nil, 200, time.Second)
	return "packets:" + kind + " over " + tr + " while the host streams"
}

// keepaliveWhileStalled: an open channel whose host keeps sending, a client that stops
// reading for a while (the relay write is held), and keep-alive / data packets meanwhile.
func (h *hostileCtx) keepaliveWhileStalled(p *TunPlan, tr string) string {
	c := h.c
	if !(h.has("openid") && len(h.mechs) == 1) {
		return "packets:keepalive-while-stalled(not reachable in this configuration)"
	}
	p.Pkts = IdealHistory(c, h.tw, p, 1, func() int { return 10 }, false)
	for i := 0; i < 3+c.T.Choose(4); i++ {
		p.Pkts = append(p.Pkts, PKeepalive())
	}
	for i := 0; i < 6; i++ {
		p.HostScript = append(p.HostScript, c.T.Bytes(2000+c.T.Choose(3000), byte(0x20+i)))
	}
	tuns := StartTunnels(c, []*TunPlan{p})
	t := tuns[0]
	held := false
	c.S.AddActor("F hostile-stall "+p.Name, func() bool {
		if held || c.S.Draining {
			return false
		}
		for _, e := range t.Client.Events {
			if e.Kind == "pkt" && e.Pkt.Type == codec.PktData {
				return true
			}
		}
		return false
	}, func() {
		held = true
		for _, e := range c.S.Ends() {
			if !e.Auto && !e.Owned && !e.Closed && strings.HasPrefix(e.Name, p.Name+".") {
				e.HoldWrites = true
			}
		}
		c.S.Count("fault.stall.write")
	})
	c.S.Run(func() bool { return t.SentAll() || t.Client.Failed != "" }, 6000, 20*time.Second)
	c.S.Run(nil, 300, 2*time.Second)
	for _, e := range c.S.Ends() {
		if strings.HasPrefix(e.Name, p.Name+".") {
			e.HoldWrites = false
		}
	}
	c.S.Run(nil, 600, 2*time.Second)
	t.Client.CloseAll(false)
	c.S.Run(nil, 100, time.Second)
	return "packets:keepalives-while-relay-write-held over " + tr
}
