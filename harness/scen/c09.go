package scen

import (
	"fmt"
	"strings"
	"time"

	"simh/codec"
	"simh/sim"
)

func init() {
	Register("c09", runC09)
}

// runC09: N concurrent tunnels doing setup, two-way data, keep-alives, close or protocol
// error while the host is still sending, abrupt disconnects, with gateway writes held
// mid-message.  Run under the race detector (one run per process); data races, fatal
// errors and panics are collected by the driver, torn frames by the client-side deframers.
func runC09(c *Ctx) {
	n := 2 + c.T.Choose(5)
	tw := PlanTunnels(c, TunOpts{N: n, Transports: []string{"ws", "legacy"}})
	idle := c.T.Weighted(2, 1, 1)
	switch idle {
	case 1:
		tw.Cfg.IdleTimeout = -5 // the tunnel-auth response normalises negative timeouts
	case 2:
		tw.Cfg.IdleTimeout = 1 + c.T.Choose(3) // minutes; some sessions below pause for seconds
	}
	if !BootTun(c, tw, false) {
		return
	}
	var ds []string
	for _, p := range tw.Plans {
		buildStreamPlan(c, tw, p, 1+c.T.Choose(4), 2+c.T.Choose(8), 2000, 9000, false)
		if idle == 2 && len(p.Pkts) > 5 && c.T.Bool(1, 2) {
			// a few seconds pass in the middle of the session (timers of the gateway get their turn)
			p.QuietBefore = map[int]time.Duration{4 + c.T.Choose(len(p.Pkts)-4): time.Duration(2+c.T.Choose(8)) * time.Second}
		}
		end := c.T.Choose(7)
		switch end {
		case 6:
			// a websocket TEXT message while the host is still sending: the packet stream ends
			// there (legacy: an out-of-phase packet instead)
			if p.Transport == "ws" {
				k := 4 + c.T.Choose(len(p.Pkts)-3)
				txt := CPkt{Kind: KUnframeable, Wire: codec.WSFrame(true, 1, []byte("this is text, not a packet"), [4]byte{1, 2, 3, 4})}
				p.Pkts = append(append(append([]CPkt{}, p.Pkts[:k]...), txt), p.Pkts[k:]...)
				c.S.Count("fault.client.ws_text_frame")
			} else {
				p.Pkts = append(p.Pkts, PTunnelAuth("again"))
			}
		case 1:
			p.Pkts = append(p.Pkts, PClose())
		case 2:
			p.Pkts = append(p.Pkts, PChannel(p.AllowedHost, HostAllowed), PData([]byte("after")))
		case 3:
			p.CloseAfter = 4 + c.T.Choose(len(p.Pkts)-3)
			p.CloseReset = c.T.Bool(1, 2)
		case 4:
			var q []CPkt
			for _, pk := range p.Pkts {
				q = append(q, pk)
				if pk.Kind == KData {
					q = append(q, PKeepalive())
				}
			}
			p.Pkts = q
		case 5:
			p.Pkts = append(p.Pkts, PTunnelAuth("again"))
		}
		ds = append(ds, fmt.Sprintf("%s/%s end=%s", p.Name, p.Transport, []string{"none", "close-while-streaming", "error-while-streaming", "drop", "keepalives", "error-while-streaming", "text-frame-while-streaming"}[end]))
	}
	longOdds := 40
	if sim.RaceEnabled {
		longOdds = 12 // what a long session can reveal is a race on the statistics fields
	}
	if c.T.Bool(1, longOdds) {
		// a long session: the host sends more than a thousand small writes on one tunnel
		p := tw.Plans[c.T.Choose(len(tw.Plans))]
		p.HostScript = nil
		for i, k := 0, 1050+c.T.Choose(200); i < k; i++ {
			p.HostScript = append(p.HostScript, []byte{byte(i), byte(i >> 8)}[:1+i%2])
		}
		ds = append(ds, fmt.Sprintf("%s: long session, %d host writes", p.Name, len(p.HostScript)))
		c.S.Count("probe.long_session")
	}
	if c.T.Bool(1, 8) {
		// two websocket connections that report the same connection id and overlap in time (a
		// client that reconnects before its old connection is gone): websocket tunnels are not
		// paired by id, each is a tunnel of its own
		var ws []*TunPlan
		for _, p := range tw.Plans {
			if p.Transport == "ws" {
				ws = append(ws, p)
			}
		}
		if len(ws) >= 2 {
			ws[1].ConnID = ws[0].ConnID
			ds = append(ds, fmt.Sprintf("%s and %s report the same connection id", ws[0].Name, ws[1].Name))
			c.S.Count("probe.same_connection_id_ws")
		}
	}
	installStalls(c, 2+c.T.Choose(4))
	tw.Tuns = StartTunnels(c, tw.Plans)
	// hosts may end their connections themselves while clients are still sending
	for _, t := range tw.Tuns {
		for _, h := range t.Hosts {
			switch c.T.Weighted(6, 1, 1) {
			case 1:
				h.CloseAfterScript = true
			case 2:
				h.ResetAfter = c.T.Choose(len(h.Script) + 1)
			}
		}
	}
	RunTunnels(c, tw.Tuns, 60000)
	moved := 0
	for _, t := range tw.Tuns {
		if t.Client.Failed != "" || t.Err != "" {
			c.Infra("tunnel %s transport setup failed: %s %s", t.Plan.Name, t.Client.Failed, t.Err)
			return
		}
		v := CheckTunnel(c, t, tw.MC, "C09")
		if c.S.Viol != nil {
			break
		}
		if sv := CheckStreams(c, t, v, "C09", false); c.S.Viol != nil {
			break
		} else if sv.ClientGot > 0 {
			moved++
		}
	}
	if v := c.S.Viol; v != nil && v.Oracle != "C09" && (strings.Contains(v.Sig, "stream") || v.Sig == "type-mismatch" || strings.HasPrefix(v.Sig, "malformed")) {
		// with concurrent writers a corrupted or interleaved packet shows as a stream or
		// framing mismatch at the client
		v.Sig = v.Oracle + ":" + v.Sig
		v.Oracle = "C09"
	}
	c.S.Stats["probe.tunnels"] += n
	c.Res.Reach = moved >= 2
	c.Samplef("%d tunnels: %s", n, strings.Join(ds, " | "))
}
