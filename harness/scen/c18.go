package scen

import (
	"fmt"
	"sort"
	"strings"
	"time"

	"simh/codec"
	"simh/env"
)

func init() {
	Register("c18", runC18)
}

func keyOfLen(c *Ctx, tag string) (val string, omit bool, descr string) {
	switch c.T.Weighted(3, 1, 1, 1, 1) {
	case 0:
		return (tag + "-0123456789abcdef0123456789abcdef")[:32], false, "32"
	case 1:
		return "", true, "absent"
	case 2:
		return "", false, "0"
	case 3:
		return "k", false, "1"
	default:
		return (tag + "-0123456789abcdef0123456789abcdef")[:31], false, "31"
	}
}

// runC18: boot the real main() under a drawn configuration; outcome = served | exited.
func runC18(c *Ctx) {
	all := []string{"openid", "kerberos", "local", "ntlm"}
	var mechs []string
	bits := 1 + c.T.Choose(15)
	keyFocus := c.T.Bool(1, 3) // a valid OpenID configuration, to reach the key-substitution clause
	if keyFocus {
		bits = 1
	}
	for i, m := range all {
		if bits&(1<<i) != 0 {
			mechs = append(mechs, m)
		}
	}
	has := func(m string) bool {
		for _, x := range mechs {
			if x == m {
				return true
			}
		}
		return false
	}
	// "basic" is an accepted spelling of "local"
	spelled := append([]string{}, mechs...)
	for i, m := range spelled {
		if m == "local" && c.T.Bool(1, 2) {
			spelled[i] = "basic"
		}
	}
	// the order in which the mechanisms are listed means nothing
	for i := len(spelled) - 1; i > 0; i-- {
		j := c.T.Choose(i + 1)
		spelled[i], spelled[j] = spelled[j], spelled[i]
	}
	joined := false
	if len(spelled) >= 2 && !keyFocus && c.T.Bool(1, 8) {
		// the mechanisms written as ONE comma separated item: that is not a list of mechanisms
		// but one unknown name, so none of them is enabled; whatever the gateway makes of it,
		// the invariants on what it actually serves (below) hold
		spelled = []string{strings.Join(spelled, ",")}
		mechs = nil
		joined = true
	}
	cfg := env.BaseConfig()
	cfg.Authentication = spelled
	cfg.OmitKeys = map[string]bool{}
	var d []string
	d = append(d, "auth="+strings.Join(spelled, "+"))
	// TLS
	tlsOff := c.T.Bool(1, 2) || keyFocus
	tlsSpelling := ""
	if tlsOff && !keyFocus && c.T.Bool(1, 5) {
		// a spelling that is not the keyword: TLS is then not disabled (certificates are
		// given), and whatever the gateway makes of it, it must not end up serving local
		// authentication without TLS
		tlsSpelling = []string{"Disable", "DISABLE", "disabled", "Disabled", "off"}[c.T.Choose(5)]
		tlsOff = false
		cfg.TLS = tlsSpelling
		cfg.CertFile, cfg.KeyFile = c.W.WriteTLSFiles()
		d = append(d, "tls-spelled="+tlsSpelling)
	} else if tlsOff {
		cfg.TLS = "disable"
	} else {
		cfg.TLS = ""
		cfg.CertFile, cfg.KeyFile = c.W.WriteTLSFiles()
	}
	d = append(d, fmt.Sprintf("tls-off=%v", tlsOff))
	// token auth
	tokenAuth := true
	ta := c.T.Choose(3)
	if keyFocus && ta == 2 {
		ta = 0
	}
	switch ta {
	case 0:
		cfg.TokenAuth = nil
	case 1:
		cfg.TokenAuth = env.Bool(true)
	default:
		cfg.TokenAuth = env.Bool(false)
		tokenAuth = false
	}
	d = append(d, fmt.Sprintf("tokenauth=%v", tokenAuth))
	// hosts and selection
	nh := c.T.Weighted(1, 3, 2)
	mi := c.T.Choose(5)
	if keyFocus {
		nh, mi = 2, mi%2
	}
	cfg.Hosts = []string{"host-a.test:3389", "host-b.test:3389"}[:nh]
	mode := []string{"", "roundrobin", "signed", "unsigned", "any"}[mi]
	cfg.HostSelection = mode
	queryKey := c.T.Bool(1, 2)
	if queryKey {
		cfg.QuerySigningKey = env.Key32
	}
	if c.T.Bool(1, 2) {
		cfg.QueryIssuer = "portal.test" // with or without a query-token key
	}
	d = append(d, fmt.Sprintf("hosts=%d selection=%q querykey=%v", nh, mode, queryKey))
	// kerberos
	keytab := false
	if has("kerberos") {
		keytab = c.T.Bool(2, 3)
		if keytab {
			cfg.Keytab = c.W.WriteKeytab("HTTP/gw.test", "CORP.TEST", "service-password")
		}
		cfg.Krb5Conf = c.W.WriteKrb5Conf("CORP.TEST", map[string][]string{"CORP.TEST": {"kdc1.corp.test:88"}})
		d = append(d, fmt.Sprintf("keytab=%v", keytab))
	}
	if has("local") || has("ntlm") {
		cfg.AuthSocket = "/sim/auth.sock"
	}
	// keys
	var kd string
	var omit bool
	cfg.PAASigningKey, omit, kd = keyOfLen(c, "paasign")
	cfg.OmitKeys["PAATokenSigningKey"] = omit
	paaLen := kd
	d = append(d, "paasigningkey="+kd)
	cfg.SessionKey, omit, kd = keyOfLen(c, "session")
	cfg.OmitKeys["SessionKey"] = omit
	sessLen := kd
	d = append(d, "sessionkey="+kd)
	cfg.SessionEncKey, omit, kd = keyOfLen(c, "sessenc")
	cfg.OmitKeys["SessionEncryptionKey"] = omit
	if kd != "32" {
		sessLen = kd
	}
	d = append(d, "sessionenckey="+kd)
	if c.T.Bool(1, 3) {
		// sessions kept in files (the cookie carries an id): the substituted keys protect those
		// just the same
		cfg.SessionStore = "file"
		d = append(d, "session-store=file")
	}
	// the optional user token has a key of its own, substituted like the others
	userTok, userLen := false, "32"
	if keyFocus && c.T.Bool(1, 2) {
		userTok = true
		cfg.EnableUserToken = true
		cfg.UsernameTemplate = "{{ username }}||{{ token }}"
		cfg.UserEncKey, omit, kd = keyOfLen(c, "userenc")
		cfg.OmitKeys["UserTokenEncryptionKey"] = omit
		userLen = kd
		cfg.PAAEncKey, omit, kd = keyOfLen(c, "paaenc")
		cfg.OmitKeys["PAATokenEncryptionKey"] = omit
		d = append(d, "usertoken-enckey="+userLen, "paa-enckey="+kd)
	}
	// some settings given through the environment instead of (or on top of) the file
	via := c.T.Weighted(3, 1)
	if via == 1 {
		cfg.Env = map[string]string{"RDPGW_SERVER__AUTHENTICATION": strings.Join(spelled, " "), "RDPGW_SERVER__HOSTS": strings.Join(cfg.Hosts, " ")}
		if len(mechs) == 1 {
			cfg.Env["RDPGW_SERVER__AUTHENTICATION"] = spelled[0]
		}
		if tlsOff {
			cfg.Env["RDPGW_SERVER__TLS"] = "disable"
			cfg.TLS = ""
			// the file gives certificates, the environment turns TLS off
			cfg.CertFile, cfg.KeyFile = c.W.WriteTLSFiles()
		}
		// the file says something else; the environment must win
		cfg.Authentication = []string{"openid"}
		if nh > 0 {
			cfg.Hosts = []string{"file-host.test:3389"}
		} else {
			delete(cfg.Env, "RDPGW_SERVER__HOSTS")
		}
		d = append(d, "via=file+env")
		if nh > 0 && c.T.Bool(1, 3) {
			// a large farm, listed in the environment only (the file names no host at all)
			var farm []string
			nf := 30 + c.T.Choose(30)
			for i := 0; i < nf; i++ {
				farm = append(farm, fmt.Sprintf("rds-farm-node-%02d.datacenter-west.corp.example.com:3389", i))
			}
			cfg.Env["RDPGW_SERVER__HOSTS"] = strings.Join(farm, " ")
			cfg.Hosts = nil
			d = append(d, fmt.Sprintf("hosts-by-environment-only=%d", len(farm)))
		}
	} else {
		d = append(d, "via=file")
	}
	// ---- validity model: the six refusals of the property
	var why []string
	if has("openid") && !tokenAuth {
		why = append(why, "openid without cookie authentication")
	}
	if has("local") && tlsOff {
		why = append(why, "local authentication with TLS disabled")
	}
	if has("ntlm") && has("kerberos") {
		why = append(why, "ntlm and kerberos together")
	}
	if has("kerberos") && !keytab {
		why = append(why, "kerberos without keytab")
	}
	if mode == "signed" && !queryKey {
		why = append(why, "signed host selection without query-token key")
	}
	if nh == 0 {
		why = append(why, "no hosts")
	}
	sort.Strings(why)
	c.W.NewIdP()
	// fault: no entropy while the instance starts and has keys to substitute
	entropyFault := len(why) == 0 && (paaLen != "32" || sessLen != "32") && c.T.Bool(1, 5)
	if entropyFault {
		cfg.EntropyFault = true
		d = append(d, "no-entropy-at-boot")
	}
	g := c.W.Boot(cfg)
	cfg.EntropyFault = false
	descr := strings.Join(d, " ")
	c.Res.CaseKey = descr
	if has("local") && !g.Exited && g.Server != nil && !g.TLS {
		c.S.Fail("C18", "local-authentication-served-without-tls", "%s: the gateway serves local (basic) authentication over plain HTTP", descr)
		return
	}
	if !g.Exited && g.Server != nil {
		// what the instance actually serves, read off the challenges of its gateway endpoint
		req := &env.HTTPReq{Name: "probe", From: "10.2.0.250:50999", Method: "RDG_OUT_DATA", Path: "/remoteDesktopGateway/", Header: [][2]string{{"Rdg-Connection-Id", "{C18-PROBE}"}}}
		var pr *env.HTTPResult
		if g.TLS {
			pr = c.W.DoTLS(req, true)
		} else {
			pr = c.W.Do(req)
		}
		if pr != nil && pr.Header != nil {
			ntlm, basic, neg := false, false, 0
			for _, v := range pr.Header.Values("Www-Authenticate") {
				switch {
				case v == "NTLM":
					ntlm = true
				case strings.HasPrefix(v, "Negotiate"):
					neg++
				case strings.HasPrefix(v, "Basic"):
					basic = true
				}
			}
			kerberos := neg > 1 || (neg == 1 && !ntlm)
			if basic && !g.TLS {
				c.S.Fail("C18", "local-authentication-served-without-tls", "%s: the gateway endpoint challenges for Basic credentials over plain HTTP", descr)
				return
			}
			if ntlm && kerberos {
				c.S.Fail("C18", "unsafe-config-started:ntlm-and-kerberos-together", "%s: the gateway endpoint challenges for NTLM and for Kerberos: both mechanisms are enabled", descr)
				return
			}
		}
	}
	_ = joined
	if entropyFault {
		// fresh random keys cannot be made: the only compliant outcomes are not to run, or to
		// run without issuing anything that depends on a substituted key
		outcome := "exited"
		if !g.Exited && g.Server != nil {
			outcome = "serves"
			if has("openid") && tokenAuth && (mode == "" || mode == "roundrobin") && !g.TLS {
				b := c.W.NewBrowser("b1", "10.2.0.5:51000")
				ok, _ := b.Login("/connect", &env.IdPUser{Sub: "alice", Claims: map[string]any{"preferred_username": "alice"}})
				if ok && sessLen != "32" {
					c.S.Fail("C18", "keys-substituted-without-entropy:session", "%s: the secure random source failed while the instance started, yet it runs sessions under substituted keys (a login succeeded)", descr)
					return
				}
				if ok {
					if fr := b.Get("/connect"); gotFile(fr) && paaLen != "32" {
						c.S.Fail("C18", "keys-substituted-without-entropy:signing", "%s: the secure random source failed while the instance started, yet it issues tokens under a substituted signing key", descr)
						return
					}
				}
				outcome = "serves, nothing issued under a substituted key"
			}
		}
		if !g.Exited && g.Server != nil && has("openid") && tokenAuth && paaLen != "32" && !g.TLS && len(cfg.Hosts) > 0 && c.S.Viol == nil {
			// ... and it must not ACCEPT anything under the key it could not make either: an access
			// cookie signed with the empty key (or the short configured one), carrying an access
			// token the provider honours, is a forgery anybody can make
			for _, k := range []string{"", cfg.PAASigningKey} {
				host := cfg.Hosts[0]
				from := "10.2.0.77:52077"
				at := c.W.IdP.IssueAccessToken("mallory")
				p := &TunPlan{Name: "f" + fmt.Sprint(len(k)), Transport: "ws", From: from, ConnID: fmt.Sprintf("{C18-FORGE-%d}", len(k)), CloseAfter: -1}
				p.Pkts = []CPkt{PHandshake(ServerCapsOf(true, false), 1, 0), PTunnelCreate(MintCookie(c, k, "mallory", host, clientIP(from), at, 5*time.Minute), false)}
				tn := StartTunnels(c, []*TunPlan{p})
				c.S.Run(func() bool {
					return tn[0].Client.Failed != "" || tn[0].Err != "" || len(tn[0].Client.Packets()) >= 2 || tn[0].Client.Ended()
				}, 4000, 20*time.Second)
				pk := tn[0].Client.Packets()
				if len(pk) >= 2 && pk[1].Pkt.Type == codec.PktTunnelResponse && pk[1].Pkt.Status == 0 {
					c.S.Fail("C18", "runs-with-empty-key:forged-cookie-accepted", "%s: the secure random source failed while the instance started; it serves, and it accepts an access cookie signed with the %d-character key %q: no fresh key was substituted, the instance runs with an empty or short signing key", descr, len(k), k)
					return
				}
				tn[0].Client.CloseAll(false)
				c.S.Run(nil, 200, time.Second)
				if k == cfg.PAASigningKey {
					break
				}
			}
			c.S.Count("probe.forged_cookie_under_unsubstituted_key_refused")
			outcome += "; forged cookies under the empty/short key refused"
		}
		c.Res.Reach = true
		c.Samplef("%s => %s", descr, outcome)
		return
	}
	if len(why) > 0 {
		c.S.Count("probe.config_must_be_refused")
		if !g.Exited {
			c.S.Fail("C18", "unsafe-config-started:"+strings.ReplaceAll(why[0], " ", "-"), "%s: the gateway serves although the configuration must be refused (%s)", descr, strings.Join(why, "; "))
		} else if g.ExitCode == 0 {
			c.S.Fail("C18", "refusal-exit-code-0", "%s: refused but exit status 0", descr)
		}
		c.Res.Reach = true
		c.Samplef("%s => must refuse (%s): exited=%v code=%d last-log=%q", descr, strings.Join(why, "; "), g.Exited, g.ExitCode, g.ExitLine)
		return
	}
	c.S.Count("probe.config_must_start")
	if g.Exited || g.Server == nil {
		c.S.Fail("C18", "valid-config-refused", "%s: none of the refusal conditions holds but the gateway exited (code %d: %s)", descr, g.ExitCode, g.ExitLine)
		return
	}
	outcome := "served"
	// ---- second clause: short or absent keys are replaced by fresh random ones
	if has("openid") && tokenAuth && (mode == "" || mode == "roundrobin") && !g.TLS {
		b := c.W.NewBrowser("b1", "10.2.0.5:51000")
		ok, cb := b.Login("/connect", &env.IdPUser{Sub: "alice", Claims: map[string]any{"preferred_username": "alice"}})
		if !ok {
			if sessLen != "32" && cb.Status >= 500 {
				c.S.Fail("C18", "runs-with-short-key", "%s: the instance keeps a %s-character session key: login fails with %d %.80q", descr, sessLen, cb.Status, cb.Body)
				return
			}
			c.Infra("login failed: callback status %d body %.100q", cb.Status, cb.Body)
			return
		}
		fr := b.Get("/connect")
		if !gotFile(fr) && userTok && userLen != "32" && paaLen == "32" {
			c.S.Fail("C18", "runs-with-short-key:user-token", "%s: user tokens are enabled with a %s-character encryption key and the download fails with %d %.80q: the key was not substituted by a usable random one", descr, userLen, fr.Status, fr.Body)
			return
		}
		if !gotFile(fr) {
			if paaLen != "32" {
				c.S.Fail("C18", "runs-with-short-key", "%s: the instance keeps the configured %s-character signing key instead of substituting a random one: download fails with %d %.80q", descr, paaLen, fr.Status, fr.Body)
				return
			}
			c.Infra("no connection file after login: %d %.100q", fr.Status, fr.Body)
			return
		}
		f := env.ParseRDP(fr.Body)
		tok := f.Values["gatewayaccesstoken"]
		cookieA := b.Jar["RDPGWSESSION"]
		if userTok {
			// the file must carry a user token (five segments): it can only be made under a
			// 32-character key, configured or substituted
			parts := strings.SplitN(f.Values["username"], "||", 2)
			if len(parts) != 2 || strings.Count(parts[1], ".") != 4 {
				if userLen != "32" {
					c.S.Fail("C18", "runs-with-short-key:user-token", "%s: user tokens are enabled with a %s-character encryption key, yet the issued file carries no user token (username line %.60q): the key was not substituted by a usable random one", descr, userLen, f.Values["username"])
					return
				}
				c.Infra("no user token in the issued file: %.80q", f.Values["username"])
				return
			}
			c.S.Count("probe.user_token_issued")
		}
		if paaLen != "32" {
			c.S.Count("probe.short_signing_key")
			if codec.VerifyHS256(tok, []byte(cfg.PAASigningKey)) || codec.VerifyHS256(tok, nil) {
				c.S.Fail("C18", "runs-with-short-key", "%s: tokens are signed with the configured %s-character key instead of a substituted random key", descr, paaLen)
				return
			}
		} else if !codec.VerifyHS256(tok, []byte(cfg.PAASigningKey)) {
			c.S.Fail("C18", "configured-key-not-used", "%s: a 32-character signing key is configured but tokens do not verify under it", descr)
			return
		}
		// instance B: same configuration, started afresh
		g.Stop()
		g2 := c.W.Boot(cfg)
		if g2.Exited || g2.Server == nil {
			c.S.Fail("C18", "valid-config-refused", "%s: second instance did not start: %s", descr, g2.ExitLine)
			return
		}
		if sessLen != "32" {
			c.S.Count("probe.short_session_key")
			b2 := c.W.NewBrowser("b2", "10.2.0.5:51001")
			b2.Jar["RDPGWSESSION"] = cookieA
			if r := b2.Get("/connect"); gotFile(r) {
				c.S.Fail("C18", "cross-instance-cookie", "%s: a session cookie of one instance with substituted keys is honoured by another instance", descr)
				return
			}
		}
		if paaLen != "32" && len(mechs) == 1 {
			p := &TunPlan{Name: "t0", Transport: "ws", From: "10.2.0.5:51002", ConnID: "{C18-0}", AllowedHost: f.Values["full address"], CloseAfter: -1}
			p.Pkts = []CPkt{PHandshake(ServerCapsOf(true, cfg.SmartCardAuth), 1, 0), PTunnelCreate(tok, false)}
			tuns := StartTunnels(c, []*TunPlan{p})
			RunTunnels(c, tuns, 2000)
			if tuns[0].Client.Failed != "" {
				c.Infra("tunnel transport setup failed: %s", tuns[0].Client.Failed)
				return
			}
			CheckTunnel(c, tuns[0], ModelCfg{TokenAuth: true, ServerCaps: ServerCapsOf(true, cfg.SmartCardAuth)}, "C18")
			if v := c.S.Viol; v != nil {
				v.Msg = fmt.Sprintf("%s: a token of one instance with a substituted signing key is honoured by another instance: %s", descr, v.Msg)
				v.Oracle, v.Sig = "C18", "cross-instance-token"
				return
			}
		}
		outcome = "served; instance B refuses A's artefacts"
	}
	c.Res.Reach = true
	c.Samplef("%s => %s", descr, outcome)
}
