package scen

import (
	"bytes"
	"fmt"
	"strings"
	"time"

	"simh/codec"
	"simh/env"
	"simh/sim"
)

type PKind int

const (
	KHandshake PKind = iota
	KTunnelCreate
	KTunnelAuth
	KChannelCreate
	KData
	KKeepalive
	KClose
	KUnknown
	// KUnframeable: bytes that cannot be framed (length field below the header size, or a
	// packet that is never completed); the tunnel must end, nothing of it is processed
	KUnframeable
)

var kindName = [...]string{"HS", "TC", "TA", "CC", "DATA", "KA", "CLOSE", "UNK", "UNFRAMEABLE"}

const (
	HostAllowed = iota
	HostDenied
	HostUnreachable
)

// CPkt is one client packet together with what the generator meant by it; the reference
// model consumes the meaning, the gateway consumes the bytes.
type CPkt struct {
	Kind      PKind
	Bytes     []byte
	Malformed bool
	Caps      uint16
	Major     byte
	Minor     byte
	NoCookie  bool
	CookieOK  bool
	Cookie    string
	HostKey   string // "name:port" exactly as requested
	Verdict   int
	Payload   []byte // declared payload of a DATA packet
	Type      uint16 // for KUnknown
	AnyDenied bool   // a refusal may carry any of the access-denied status codes
	// OverDeclared: a DATA packet whose length field exceeds the bytes carried
	OverDeclared bool
	// Wire: bytes already framed for the transport, sent as they are instead of Bytes
	Wire []byte
	// Alts: a channel create that lists alternate resource names after the resource name
	Alts bool
}

func (p CPkt) String() string {
	s := kindName[p.Kind]
	switch p.Kind {
	case KHandshake:
		s += fmt.Sprintf("(caps=%#x)", p.Caps)
	case KTunnelCreate:
		if p.NoCookie {
			s += "(nocookie)"
		} else if p.CookieOK {
			s += "(ok)"
		} else {
			s += "(badcookie)"
		}
	case KChannelCreate:
		s += fmt.Sprintf("(%s,%s)", p.HostKey, [...]string{"allowed", "denied", "unreach"}[p.Verdict])
	case KData:
		s += fmt.Sprintf("(%d)", len(p.Payload))
	case KUnknown:
		s += fmt.Sprintf("(%#x)", p.Type)
	}
	if p.Malformed {
		s += "!"
	}
	return s
}

// TunPlan describes one tunnel of a scenario.
type TunPlan struct {
	Name        string
	Transport   string
	From        string
	InFrom      string // legacy IN channel source address ("" = From)
	ConnID      string
	XFF         string
	User        string
	AccessToken string
	AllowedHost string
	DeniedHost  string
	UnreachHost string
	Pkts        []CPkt
	HostScript  [][]byte
	INFirst     bool
	// CloseAfter >= 0: the client drops its connections after sending that many packets.
	CloseAfter int
	CloseReset bool
	// Stream: deliveries towards the gateway on this tunnel's connections may split and
	// coalesce write boundaries (TCP re-segmentation)
	Stream bool
	// Segs: if set, the packet byte stream is sent as these [from,to) pieces, one transport
	// message (ws message / HTTP chunk) each, instead of one packet per message
	Segs [][2]int
	// WSFrames: split each ws message into that many frames (continuation frames)
	WSFrames int
	// NTLM credentials for configurations whose gateway endpoint needs HTTP authentication
	NTLMUser, NTLMPass string
	// DupIn: a second RDG_IN_DATA request with the same connection id is made while the
	// tunnel exists: 1 = after both channels were accepted and before the first body byte of
	// the first IN channel, 2 = after DupAfter packets were sent.  If the gateway lets it in,
	// it sends a handshake with version 7.7, which no other client of a run uses.
	DupIn    int
	DupAfter int
	// EndBody (legacy): the client ends the request body of the IN channel properly after
	// its last packet: 1 = the terminating chunk travels in the same write as the last piece
	// of the packet stream, 2 = in a write of its own
	EndBody int
	// ForeignHosts: addresses that look like this tunnel's by name but are another tunnel's
	ForeignHosts map[string]bool
	// StartGate / SecondGate, when set, hold back the first connection of the tunnel / the
	// second request of a legacy pair until they return true (late joiners, slow clients)
	StartGate  func() bool
	SecondGate func() bool
	// PreambleDelay (legacy): the client lets that much time pass between the acceptance of its
	// RDG_IN_DATA request and the first byte it sends on it
	PreambleDelay time.Duration
	// EmptyMsgEvery (websocket, with Segs): an empty binary message is sent in front of every
	// n-th transport message
	EmptyMsgEvery int
	// LostOut (legacy): the client's first RDG_OUT_DATA connection is lost right after it was
	// accepted (before any RDG_IN_DATA); the client retries with the same connection id
	LostOut bool
	// QuietBefore[i]: the client is quiet for that long (simulated time passes on the open
	// tunnel) before it sends transport message i (segment i with Segs, else packet i)
	QuietBefore map[int]time.Duration
	// QuietGate, when set, must hold before a quiet period starts (e.g. "every other tunnel of
	// the run is through its set-up": their cookies must not expire while this client is silent)
	QuietGate func() bool
}

type Tun struct {
	Plan   *TunPlan
	Client *env.TunClient
	Hosts  []*env.Host
	step   int // transport setup progress
	next   int
	seg    int
	stream []byte
	ends   []int
	closed bool
	Err    string
	// Dup is the client that made the second IN request (TunPlan.DupIn)
	Dup      *env.TunClient
	dupStage int
	// lost is the client's first, lost RDG_OUT_DATA attempt (TunPlan.LostOut)
	lost       *env.TunClient
	lostStage  int
	preDelayed bool
	quietTries int
	quiet      map[int]bool
}

func (t *Tun) SentAll() bool {
	if t.Plan.Segs != nil {
		return (t.Client.Ready && t.seg >= len(t.Plan.Segs)) || t.closed || t.Err != ""
	}
	return (t.Client.Ready && t.next >= len(t.Plan.Pkts)) || t.closed || t.Err != ""
}

// HostConns are the backend connections that can belong to this tunnel: those accepted by
// its hosts after the tunnel started sending (host names may be shared between tunnels of
// one run when they derive from a user name).
func (t *Tun) HostConns() []*env.HostConn {
	var out []*env.HostConn
	var first uint64
	if len(t.Client.Sent) > 0 {
		first = t.Client.Sent[0].Seq
	}
	for _, h := range t.Hosts {
		for _, hc := range h.Conns {
			if hc.AccSeq >= first {
				out = append(out, hc)
			}
		}
	}
	return out
}

// sendSeg sends the next piece of the re-segmented packet stream and records which
// packets have now been sent completely.
func (t *Tun) sendSeg(c *Ctx) {
	p, cl := t.Plan, t.Client
	if t.stream == nil {
		for _, pk := range p.Pkts {
			t.stream = append(t.stream, pk.Bytes...)
			t.ends = append(t.ends, len(t.stream))
		}
	}
	sg := p.Segs[t.seg]
	if p.Transport == "ws" && p.EmptyMsgEvery > 0 && t.seg > 0 && t.seg%p.EmptyMsgEvery == 0 {
		// a binary message without payload: it carries no byte of the packet stream
		cl.SendWire(codec.WSFrame(true, 2, nil, cl.Mask()))
		c.S.Count("probe.empty_websocket_message")
	}
	t.seg++
	piece := t.stream[sg[0]:sg[1]]
	last := t.seg == len(p.Segs)
	if last && p.Transport == "legacy" && p.EndBody > 0 {
		w := codec.Chunk(piece)
		if p.EndBody == 1 {
			cl.SendWire(append(w, []byte("0\r\n\r\n")...))
		} else {
			cl.SendWire(w)
			cl.SendWire([]byte("0\r\n\r\n"))
		}
		c.S.Count("probe.body_ended_properly")
	} else if p.Transport == "ws" && p.WSFrames > 1 && len(piece) >= p.WSFrames {
		var fr []int
		for i := 0; i < p.WSFrames; i++ {
			fr = append(fr, len(piece)/p.WSFrames)
		}
		cl.SendWire(codec.WSMessage(piece, fr, cl.Mask()))
	} else {
		cl.SendRaw(piece)
	}
	for t.next < len(p.Pkts) && t.ends[t.next] <= sg[1] {
		cl.Sent = append(cl.Sent, env.SentPkt{Seq: c.S.Seq, Index: t.next, Bytes: p.Pkts[t.next].Bytes})
		t.next++
	}
}

func clientIP(addr string) string {
	if i := strings.LastIndexByte(addr, ':'); i >= 0 {
		h := addr[:i]
		return strings.Trim(h, "[]")
	}
	return addr
}

// MintCookie builds a cookie the acceptance model says the gateway must accept now.
func MintCookie(c *Ctx, key string, user, host, clientIP, accessToken string, ttl time.Duration) string {
	exp := time.Now().Add(ttl).Unix()
	return codec.MintPAA([]byte(key), codec.PAAClaims{Iss: "rdpgw", Sub: user, Exp: &exp, RemoteServer: host, ClientIP: clientIP, AccessToken: accessToken})
}

// StartTunnels creates clients, hosts and the actors that drive them.
func StartTunnels(c *Ctx, plans []*TunPlan) []*Tun {
	var tuns []*Tun
	for _, p := range plans {
		p := p
		t := &Tun{Plan: p}
		t.Client = c.W.NewTunClient(p.Name, p.Transport, p.From, p.ConnID)
		t.Client.XFF = p.XFF
		t.Client.NTLMUser, t.Client.NTLMPass = p.NTLMUser, p.NTLMPass
		for _, h := range []string{p.AllowedHost, p.DeniedHost} {
			if h != "" && c.W.Host[h] == nil {
				t.Hosts = append(t.Hosts, c.W.AddHost(h, p.HostScript))
			}
		}
		tuns = append(tuns, t)
		cl := t.Client
		c.S.AddActor("T "+p.Name, func() bool {
			if t.Err != "" || t.closed {
				return false
			}
			if cl.Failed != "" {
				return false
			}
			if !cl.Ready {
				return t.setupEnabled()
			}
			if p.CloseAfter >= 0 && t.next >= p.CloseAfter {
				return true
			}
			if p.Stream && p.Transport == "legacy" && cl.In.Peer.InFlight() > 0 && t.next == 0 && t.seg == 0 {
				return false // the preamble must have been consumed as its own segment
			}
			if p.Segs != nil {
				return t.seg < len(p.Segs)
			}
			return t.next < len(p.Pkts)
		}, func() {
			if !cl.Ready {
				t.setupStep(c)
				return
			}
			if p.CloseAfter >= 0 && t.next >= p.CloseAfter {
				cl.CloseAll(p.CloseReset)
				t.closed = true
				if p.CloseReset {
					c.S.Count("fault.conn.rst")
				} else {
					c.S.Count("fault.conn.eof")
				}
				return
			}
			if p.Stream {
				for _, e := range []*sim.End{cl.WS, cl.In} {
					if e != nil {
						e.Peer.Stream = true
					}
				}
			}
			idx := t.next
			if p.Segs != nil {
				idx = t.seg
			}
			if d := p.QuietBefore[idx]; d > 0 && !t.quiet[idx] && c.S.PendingDials() == 0 {
				if t.quiet == nil {
					t.quiet = map[int]bool{}
				}
				// a silence of minutes is placed only where it is "a silent client" and nothing else:
				// the gateway has taken and answered what was sent so far, and every other tunnel of
				// the run is through its set-up (cookies live five minutes); otherwise it is skipped
				ok := d < 4*time.Minute || p.QuietGate == nil || p.QuietGate()
				if d >= 4*time.Minute {
					for _, e := range []*sim.End{cl.WS, cl.In} {
						if e != nil && e.Peer != nil && e.Peer.InFlight() > 0 {
							ok = false
						}
					}
					want := idx
					if want > 4 {
						want = 4
					}
					if p.Segs == nil && len(cl.Packets()) < want {
						ok = false
					}
				}
				if !ok && t.quietTries < 400 && !cl.Ended() {
					// not yet: let the network and the gateway catch up (this step only lets time-less
					// things happen; the attempt is repeated a bounded number of times)
					t.quietTries++
					return
				}
				t.quiet[idx] = true
				if ok {
					c.S.Advance(d)
					c.S.Count("fault.client.quiet_period")
				}
				return
			}
			if p.Segs != nil {
				t.sendSeg(c)
				return
			}
			if pk := p.Pkts[t.next]; pk.Wire != nil {
				// already framed for the transport (e.g. a websocket TEXT message)
				cl.Sent = append(cl.Sent, env.SentPkt{Seq: c.S.Seq, Index: len(cl.Sent), Bytes: pk.Bytes})
				cl.SendWire(pk.Wire)
			} else {
				cl.SendPacket(pk.Bytes)
			}
			t.next++
		})
		if p.DupIn > 0 && p.Transport == "legacy" {
			c.S.AddActor("D "+p.Name, func() bool {
				if t.dupStage >= 2 || t.Err != "" || cl.Failed != "" {
					return false
				}
				if p.DupIn == 1 {
					return cl.LegacyReady() && !cl.Ready
				}
				return cl.Ready && t.next >= p.DupAfter
			}, func() {
				if t.dupStage == 0 {
					from := p.From
					if p.InFrom != "" {
						from = p.InFrom
					}
					t.Dup = c.W.NewTunClient(p.Name+"-dup", "legacy", from, p.ConnID)
					t.Dup.XFF = p.XFF
					t.Dup.NTLMUser, t.Dup.NTLMPass = p.NTLMUser, p.NTLMPass
					if err := t.Dup.OpenIn(""); err != nil {
						t.dupStage = 2
						return
					}
					t.dupStage = 1
					c.S.Count("probe.second_in_channel")
					return
				}
				t.dupStage = 2
				if t.Dup.In != nil && !t.Dup.In.Closed && !t.Dup.In.Peer.Closed {
					t.Dup.SendPreamble()
					t.Dup.SendPacket(codec.HandshakeRequest(7, 7, 0, 3))
				}
			})
		}
	}
	return tuns
}

func (t *Tun) setupEnabled() bool {
	cl, p := t.Client, t.Plan
	if t.step == 0 && p.StartGate != nil && !p.StartGate() {
		return false
	}
	if p.Transport == "ws" {
		return t.step == 0
	}
	switch t.step {
	case 0:
		if p.LostOut && t.lostStage == 1 {
			return t.lost.Status("out") == 200 || t.lost.Failed != ""
		}
		return true
	case 1:
		if p.SecondGate != nil && !p.SecondGate() {
			return false
		}
		if p.INFirst {
			return cl.Status("in") == 200
		}
		return cl.Status("out") == 200
	case 2:
		return cl.LegacyReady() && (p.DupIn != 1 || t.dupStage == 2)
	}
	return false
}

func (t *Tun) setupStep(c *Ctx) {
	cl, p := t.Client, t.Plan
	var err error
	if p.Transport == "ws" {
		err = cl.OpenWS()
		t.step = 1
	} else {
		switch t.step {
		case 0:
			if p.LostOut && !p.INFirst && t.lostStage < 2 {
				if t.lostStage == 0 {
					t.lost = c.W.NewTunClient(p.Name+"-lost", "legacy", p.From, p.ConnID)
					t.lost.XFF = p.XFF
					t.lost.NTLMUser, t.lost.NTLMPass = p.NTLMUser, p.NTLMPass
					if e := t.lost.OpenOut(); e != nil {
						t.Err = e.Error()
					}
					t.lostStage = 1
					return
				}
				t.lost.CloseAll(p.CloseReset)
				t.lostStage = 2
				c.S.Count("fault.conn.out_channel_lost_before_in")
				return
			}
			if p.INFirst {
				err = cl.OpenIn(p.InFrom)
				c.S.Count("fault.order.inout")
			} else {
				err = cl.OpenOut()
			}
			t.step = 1
		case 1:
			if p.INFirst {
				err = cl.OpenOut()
			} else {
				err = cl.OpenIn(p.InFrom)
			}
			t.step = 2
		case 2:
			if p.PreambleDelay > 0 && !t.preDelayed && c.S.PendingDials() == 0 {
				t.preDelayed = true
				c.S.Advance(p.PreambleDelay)
				c.S.Count("fault.client.slow_to_send_first_byte")
				return
			}
			cl.SendPreamble()
			t.step = 3
		}
	}
	if err != nil {
		t.Err = err.Error()
	}
}

// OthersSetUp is a QuietGate: every tunnel other than p has its channel (four responses), has
// ended, or can no longer proceed.
func OthersSetUp(tuns *[]*Tun, p *TunPlan) func() bool {
	return func() bool {
		for _, t := range *tuns {
			if t.Plan == p {
				continue
			}
			if len(t.Client.Packets()) >= 4 || t.Client.Ended() || t.closed || t.Client.Failed != "" || t.Err != "" {
				continue
			}
			return false
		}
		return true
	}
}

// RunTunnels drives all tunnels to the end of their plans and then drains.
func RunTunnels(c *Ctx, tuns []*Tun, maxSteps int) {
	c.S.Run(func() bool {
		for _, t := range tuns {
			if !t.SentAll() && t.Client.Failed == "" {
				return false
			}
		}
		return true
	}, maxSteps, 20*time.Second)
	Drain(c, maxSteps)
}

// Drain lifts stalls and lets everything in flight settle (bounded steps and time).
func Drain(c *Ctx, maxSteps int) {
	c.S.Draining = true
	for _, e := range c.S.Ends() {
		if e.KeepHold {
			continue // a peer that never reads again stays that way
		}
		e.HoldDeliver, e.HoldWrites = false, false
	}
	c.S.Run(nil, maxSteps, 20*time.Second)
}

// ---------------------------------------------------------------------------------------
// reference model of one tunnel (written from MS-TSGU and the property statements)

type ModelCfg struct {
	TokenAuth  bool
	ServerCaps uint16
	Redir      uint32
	Idle       uint32
	CheckRedir bool
}

const (
	stInit = iota
	stHandshaken
	stCreated
	stAuthorized
	stOpen
)

type TunVerdict struct {
	State        int
	Dead         bool
	Optional     bool
	ExpectHost   []byte // bytes the host must receive (prefix at any time)
	Channel      int    // index of the accepted channel-create, -1 if none
	ChannelHost  string
	DialExpected bool
	Unframeable  bool
	Accepted     []string // steps the model accepted, for samples
	Reached      int      // furthest state
}

func failf(c *Ctx, oracle, sig, format string, a ...any) {
	c.S.Fail(oracle, sig, format, a...)
}

// CheckTunnel compares what one tunnel's client, hosts and the dial log observed with the
// reference model run over the packets the client actually sent.  props selects which
// property's clauses are enforced ("C01","C16","C17","C03","C06"...); structural packet
// checks are always on.
func CheckTunnel(c *Ctx, t *Tun, mc ModelCfg, prop string) *TunVerdict {
	p, cl := t.Plan, t.Client
	v := &TunVerdict{Channel: -1}
	name := p.Name
	// every packet from the gateway must be structurally well-formed
	var ctrl []env.TunEvent
	var dataIn []byte
	chanOpenSeen := false
	for _, e := range cl.Events {
		switch e.Kind {
		case "pkt":
			if e.Pkt.Err != "" {
				failf(c, "C16", "malformed:"+codec.PktName(e.Pkt.Type), "%s: gateway sent malformed %s: %s raw=%s", name, codec.PktName(e.Pkt.Type), e.Pkt.Err, short(e.Pkt.Raw))
				return v
			}
			if e.Pkt.Type == codec.PktHandshakeResponse && e.Pkt.Major == 7 && e.Pkt.Minor == 7 && t.Dup != nil {
				failf(c, "C01", "second-in-channel-processed", "%s: a handshake sent on a second RDG_IN_DATA connection of the same connection id (opened %s) was processed and answered: two packet streams feed one tunnel; %s", name, map[int]string{1: "before the first body byte of the first IN channel", 2: "on the established tunnel"}[p.DupIn], cl.Describe())
				return v
			}
			if e.Pkt.Type == codec.PktChannelResponse && e.Pkt.Status == 0 {
				chanOpenSeen = true
			}
			if e.Pkt.Type == codec.PktData && !chanOpenSeen {
				failf(c, "C16", "data-before-channel-response", "%s: the gateway sent a DATA packet before the channel response: the packet that answers the channel create is not a channel response; %s", name, cl.Describe())
				return v
			}
			if e.Pkt.Type == codec.PktData {
				dataIn = append(dataIn, e.Pkt.Payload...)
			} else if e.Pkt.Type == codec.PktKeepalive {
				// server keepalives are legal at any time
			} else {
				ctrl = append(ctrl, e)
			}
		case "bad":
			failf(c, "C09", "torn-frame", "%s: client-side deframer: %s", name, e.Text)
			return v
		}
	}
	ri := 0
	state := stInit
	dead := false
	optional := false
	blind := false
	sentN := len(cl.Sent)
	take := func() *env.TunEvent {
		if ri < len(ctrl) {
			ri++
			return &ctrl[ri-1]
		}
		return nil
	}
	// expectOK: the step must be answered by respType with status 0
	expectOK := func(i int, pk CPkt, respType uint16) (*env.TunEvent, bool) {
		r := take()
		if r == nil {
			if !optional && !t.closed {
				failf(c, "C16", "valid-step-unanswered", "%s: %s (packet %d) is valid in this phase but was never answered; got %s", name, pk, i, cl.Describe())
				dead = true
				return nil, false
			}
			// the client dropped its connections (or an ignorable packet was sent): the
			// response cannot be observed; the model goes on blind, assuming acceptance,
			// so that later effects (a dial) are allowed but not required.
			blind = true
			return nil, true
		}
		if r.Pkt.Type != respType {
			failf(c, "C16", "type-mismatch", "%s: %s answered by %s", name, pk, codec.PktName(r.Pkt.Type))
			dead = true
			return r, false
		}
		if r.Seq <= cl.Sent[i].Seq {
			failf(c, "C01", "response-before-request", "%s: response %s seq=%d precedes its request seq=%d", name, codec.PktName(r.Pkt.Type), r.Seq, cl.Sent[i].Seq)
		}
		if r.Pkt.Status != 0 {
			failf(c, "C16", "valid-step-refused", "%s: %s is valid in this phase but got status %#x", name, pk, r.Pkt.Status)
			dead = true
			return r, false
		}
		return r, true
	}
	// expectErr: the step must be refused: an error status of its own response type, or
	// end of stream; must==true demands the response with exactly that code.
	expectErr := func(i int, pk CPkt, respType uint16, must bool, code uint32, oracle string) {
		dead = true
		r := take()
		if r == nil {
			if must && !optional && !t.closed {
				failf(c, oracle, "refusal-not-reported", "%s: %s must be refused with status %#x but nothing was sent; got %s", name, pk, code, cl.Describe())
			}
			return
		}
		if respType == 0 {
			failf(c, "C01", "answered-unanswerable", "%s: %s out of phase was answered by %s status=%#x", name, pk, codec.PktName(r.Pkt.Type), r.Pkt.Status)
			return
		}
		if r.Pkt.Status == 0 {
			failf(c, "C01", "success-out-of-order", "%s: %s (packet %d, model state %d) got a success %s", name, pk, i, state, codec.PktName(r.Pkt.Type))
			return
		}
		if r.Pkt.Type != respType {
			failf(c, "C16", "type-mismatch", "%s: %s refused by %s instead of %s", name, pk, codec.PktName(r.Pkt.Type), codec.PktName(respType))
			return
		}
		if must && r.Pkt.Status != code {
			failf(c, oracle, "wrong-status", "%s: %s refused with %#x, expected %#x", name, pk, r.Pkt.Status, code)
		}
	}
	for i := 0; i < sentN && i < len(p.Pkts); i++ {
		pk := p.Pkts[i]
		if c.S.Viol != nil {
			return v
		}
		if dead {
			continue
		}
		if pk.Malformed {
			// malformed body of a known type: the gateway may refuse or may treat missing
			// fields as zero; follow what it did, safety clauses below still apply.
			rt := codec.ResponseTypeFor(uint16(pktType(pk.Kind)))
			if rt == 0 {
				optional = true
				continue
			}
			// accepting is only legal if the step is in phase; phase advance mirrors the gateway
			okPhase := (pk.Kind == KHandshake && state == stInit) || (pk.Kind == KTunnelCreate && state == stHandshaken && !mc.TokenAuth) ||
				(pk.Kind == KTunnelAuth && state == stCreated)
			r := take()
			if r == nil {
				if (t.closed || optional) && okPhase {
					blind = true // unobservable: assume it may have been accepted
					state++
					continue
				}
				dead = true
				continue
			}
			if r.Pkt.Type != rt {
				failf(c, "C16", "type-mismatch", "%s: malformed %s answered by %s", name, pk, codec.PktName(r.Pkt.Type))
				return v
			}
			if r.Pkt.Status != 0 {
				dead = true
				continue
			}
			if !okPhase {
				failf(c, "C01", "success-out-of-order", "%s: malformed %s (packet %d, model state %d) got a success response", name, pk, i, state)
				return v
			}
			state++
			continue
		}
		switch pk.Kind {
		case KHandshake:
			if state != stInit {
				expectErr(i, pk, codec.PktHandshakeResponse, false, 0, "C01")
				continue
			}
			ok := (pk.Caps == 0 && mc.ServerCaps == 0) || pk.Caps&mc.ServerCaps != 0
			if !ok {
				expectErr(i, pk, codec.PktHandshakeResponse, true, codec.StatusCapMismatch, "C17")
				continue
			}
			if r, ok := expectOK(i, pk, codec.PktHandshakeResponse); ok {
				if r == nil {
					state = stHandshaken
					continue
				}
				if r.Pkt.ExtAuth != mc.ServerCaps {
					failf(c, "C17", "caps-advertised", "%s: handshake response advertises caps %#x, server has %#x", name, r.Pkt.ExtAuth, mc.ServerCaps)
				}
				if r.Pkt.Major != pk.Major || r.Pkt.Minor != pk.Minor {
					failf(c, "C17", "version-echo", "%s: handshake response version %d.%d, client sent %d.%d", name, r.Pkt.Major, r.Pkt.Minor, pk.Major, pk.Minor)
				}
				state = stHandshaken
				v.Accepted = append(v.Accepted, "HS")
			}
		case KTunnelCreate:
			if state != stHandshaken {
				expectErr(i, pk, codec.PktTunnelResponse, false, 0, "C01")
				continue
			}
			if mc.TokenAuth && !pk.CookieOK {
				expectErr(i, pk, codec.PktTunnelResponse, true, codec.StatusCookieAuthDenied, "C02")
				continue
			}
			if _, ok := expectOK(i, pk, codec.PktTunnelResponse); ok {
				state = stCreated
				v.Accepted = append(v.Accepted, "TC")
			}
		case KTunnelAuth:
			if state != stCreated {
				before := ri
				expectErr(i, pk, codec.PktTunnelAuthResp, false, 0, "C01")
				if c.S.Viol == nil && ri > before && mc.CheckRedir && ctrl[before].Pkt.Type == codec.PktTunnelAuthResp {
					// a refusal is still a tunnel-authorization response: what it says about
					// redirection and the idle timeout is the configuration
					r := ctrl[before]
					if r.Pkt.Fields&0x1 != 0 && r.Pkt.Redir != mc.Redir {
						failf(c, "C16", "redir-flags", "%s: refused tunnel-auth response carries redirection flags %#x, configuration means %#x", name, r.Pkt.Redir, mc.Redir)
					} else if r.Pkt.Fields&0x2 != 0 && r.Pkt.Idle != mc.Idle {
						failf(c, "C16", "idle-timeout", "%s: refused tunnel-auth response carries idle timeout %d, configuration means %d", name, r.Pkt.Idle, mc.Idle)
					}
				}
				continue
			}
			if r, ok := expectOK(i, pk, codec.PktTunnelAuthResp); ok {
				state = stAuthorized
				v.Accepted = append(v.Accepted, "TA")
				if mc.CheckRedir && r != nil {
					if r.Pkt.Fields&0x1 == 0 || r.Pkt.Redir != mc.Redir {
						failf(c, "C16", "redir-flags", "%s: tunnel-auth response redirection flags %#x (fields %#x), configuration means %#x", name, r.Pkt.Redir, r.Pkt.Fields, mc.Redir)
					}
					if r.Pkt.Fields&0x2 == 0 || r.Pkt.Idle != mc.Idle {
						failf(c, "C16", "idle-timeout", "%s: tunnel-auth response idle timeout %d (fields %#x), configuration means %d", name, r.Pkt.Idle, r.Pkt.Fields, mc.Idle)
					}
				}
			}
		case KChannelCreate:
			if state != stAuthorized {
				expectErr(i, pk, codec.PktChannelResponse, false, 0, "C01")
				continue
			}
			switch pk.Verdict {
			case HostDenied:
				if pk.AnyDenied {
					before := ri
					expectErr(i, pk, codec.PktChannelResponse, false, 0, "C04")
					if c.S.Viol == nil && ri > before {
						switch ctrl[before].Pkt.Status {
						case codec.StatusRAPAccessDenied, codec.StatusAccessDenied, codec.StatusNAPAccessDenied, codec.StatusCookieAuthDenied:
						default:
							failf(c, "C04", "wrong-status", "%s: %s refused with %#x which is not an access-denied status", name, pk, ctrl[before].Pkt.Status)
						}
					} else if c.S.Viol == nil && !optional && !t.closed {
						failf(c, "C04", "refusal-not-reported", "%s: %s must be refused with an access-denied status but nothing was sent", name, pk)
					}
					continue
				}
				expectErr(i, pk, codec.PktChannelResponse, true, codec.StatusRAPAccessDenied, "C03")
			case HostUnreachable:
				v.Channel, v.ChannelHost, v.DialExpected = i, pk.HostKey, true
				expectErr(i, pk, codec.PktChannelResponse, false, 0, "C16")
				if !dead {
					dead = true
				}
			default:
				v.Channel, v.ChannelHost, v.DialExpected = i, pk.HostKey, true
				if _, ok := expectOK(i, pk, codec.PktChannelResponse); ok {
					state = stOpen
					v.Accepted = append(v.Accepted, "CC")
				}
			}
		case KData:
			if state != stOpen {
				expectErr(i, pk, 0, false, 0, "C01")
				continue
			}
			v.ExpectHost = append(v.ExpectHost, pk.Payload...)
		case KKeepalive:
			if state != stOpen {
				expectErr(i, pk, 0, false, 0, "C01")
				continue
			}
		case KClose:
			if state != stOpen {
				expectErr(i, pk, codec.PktCloseChannelResp, false, 0, "C01")
				continue
			}
			// orderly close: a success close response or silence; the tunnel is over
			dead = true
			if r := take(); r != nil {
				if r.Pkt.Type != codec.PktCloseChannelResp {
					failf(c, "C16", "type-mismatch", "%s: CLOSE answered by %s", name, codec.PktName(r.Pkt.Type))
				} else if r.Pkt.Status != 0 {
					failf(c, "C16", "valid-step-refused", "%s: the channel close is valid in this phase (the channel is closed by it) but was answered with status %#x", name, r.Pkt.Status)
				}
			}
		case KUnknown:
			optional = true
		case KUnframeable:
			dead = true
			v.Unframeable = true
		}
		if state > v.Reached {
			v.Reached = state
		}
	}
	if c.S.Viol != nil {
		return v
	}
	if ri < len(ctrl) {
		r := ctrl[ri]
		failf(c, "C01", "answered-after-end", "%s: gateway sent %s status=%#x although the model says the tunnel was over or nothing was pending (sent=%s) got %s", name, codec.PktName(r.Pkt.Type), r.Pkt.Status, planString(p, sentN), cl.Describe())
		return v
	}
	v.State, v.Dead, v.Optional = state, dead, optional || blind
	// dial log: at most one dial, only for the accepted channel-create, to exactly that host
	n := 0
	for _, d := range c.S.DialLog {
		if !belongs(p, d.To) {
			continue
		}
		if len(cl.Sent) > 0 && d.Seq < cl.Sent[0].Seq {
			continue // made before this tunnel sent anything: another tunnel's dial to the same name
		}
		n++
		if v.Channel < 0 {
			failf(c, "C01", "dial-unauthorised", "%s: gateway dialed %s but the tunnel never completed the authorisation sequence (sent=%s)", name, d.To, planString(p, sentN))
			return v
		}
		if d.To != v.ChannelHost {
			failf(c, "C03", "dial-other-host", "%s: gateway dialed %s, the accepted request named %s", name, d.To, v.ChannelHost)
			return v
		}
		if d.Seq <= cl.Sent[v.Channel].Seq {
			failf(c, "C01", "dial-before-request", "%s: dial to %s at seq %d precedes the channel request at seq %d", name, d.To, d.Seq, cl.Sent[v.Channel].Seq)
			return v
		}
		if n > 1 {
			failf(c, "C01", "dial-twice", "%s: more than one backend connection (%d) for one tunnel", name, n)
			return v
		}
	}
	// host side: bytes only from DATA packets sent while the channel was open, in order
	var got []byte
	for _, hc := range t.HostConns() {
		got = append(got, hc.Recv...)
	}
	if !bytes.HasPrefix(v.ExpectHost, got) {
		sig := "host-stream-mismatch"
		if len(v.ExpectHost) == 0 {
			sig = "relay-unauthorised"
		}
		failf(c, "C01", sig, "%s: host received %d bytes %s which is not a prefix of the %d bytes the model relays %s", name, len(got), short(got), len(v.ExpectHost), short(v.ExpectHost))
	}
	_ = dataIn
	return v
}

func planString(p *TunPlan, n int) string {
	var sb strings.Builder
	for i, pk := range p.Pkts {
		if i >= n {
			break
		}
		if i > 0 {
			sb.WriteByte(' ')
		}
		sb.WriteString(pk.String())
	}
	return sb.String()
}

func belongs(p *TunPlan, addr string) bool {
	if p.ForeignHosts[addr] {
		return false
	}
	return addr == p.AllowedHost || addr == p.DeniedHost || addr == p.UnreachHost || strings.Contains(addr, "-"+p.Name+".")
}

func pktType(k PKind) int {
	switch k {
	case KHandshake:
		return codec.PktHandshakeRequest
	case KTunnelCreate:
		return codec.PktTunnelCreate
	case KTunnelAuth:
		return codec.PktTunnelAuth
	case KChannelCreate:
		return codec.PktChannelCreate
	case KData:
		return codec.PktData
	case KKeepalive:
		return codec.PktKeepalive
	case KClose:
		return codec.PktCloseChannel
	}
	return 0
}

// ServerCapsOf is the capability set a configuration enables.
func ServerCapsOf(tokenAuth, smartCard bool) uint16 {
	var c uint16
	if smartCard {
		c |= codec.ExtAuthSC
	}
	if tokenAuth {
		c |= codec.ExtAuthPAA
	}
	return c
}

// RedirOf is the MS-TSGU redirection word a configuration means.
func RedirOf(cfg *env.GWConfig) uint32 {
	if cfg.DisableRedir {
		return codec.RedirDisableAll
	}
	if cfg.RedirectAll {
		return codec.RedirEnableAll
	}
	var r uint32
	if !cfg.Drive {
		r |= codec.RedirDisableDrive
	}
	if !cfg.Printer {
		r |= codec.RedirDisablePrinter
	}
	if !cfg.Port_ {
		r |= codec.RedirDisablePort
	}
	if !cfg.Clipboard {
		r |= codec.RedirDisableClipboard
	}
	if !cfg.Pnp {
		r |= codec.RedirDisablePnp
	}
	return r
}

func IdleOf(cfg *env.GWConfig) uint32 {
	if cfg.IdleTimeout < 0 {
		return 0
	}
	return uint32(cfg.IdleTimeout)
}

var _ = sim.StopIdle
