package scen

import (
	"sort"
	"bytes"
	"encoding/binary"
	"fmt"
	"strings"
	"time"

	"simh/codec"
	"simh/env"
	"simh/sim"
)

func init() {
	Register("c20", runC20)
}

// runC20: KDC proxy requests x KDC fault behaviours x clock.
func runC20(c *Ctx) {
	cfg := env.BaseConfig()
	cfg.Authentication = []string{"kerberos"}
	cfg.TokenAuth = env.Bool(false)
	cfg.ProviderURL = ""
	cfg.Keytab = c.W.WriteKeytab("HTTP/gw.test", "CORP.TEST", "service-password")
	nk := 1 + c.T.Choose(3)
	// realm names are compared as configured (they are case-sensitive in Kerberos); the other
	// realm may be one that differs from the first in letter case only
	realmName := []string{"CORP.TEST", "CORP.TEST", "CORP.TEST", "Corp.Test", "corp.test"}[c.T.Choose(5)]
	otherName := "OTHER.TEST"
	if realmName != "CORP.TEST" && c.T.Bool(1, 2) {
		otherName = "CORP.TEST"
	}
	realms := map[string][]string{realmName: nil, otherName: {"kdc.other.test:88"}}
	for i := 0; i < nk; i++ {
		realms[realmName] = append(realms[realmName], fmt.Sprintf("kdc%d.corp.test:88", i+1))
	}
	cfg.Krb5Conf = c.W.WriteKrb5Conf(realmName, realms)
	g := c.W.Boot(cfg)
	if g.Exited || g.Server == nil {
		c.Infra("gateway did not start: %s", g.ExitLine)
		return
	}
	// history: the realm's KDCs were all down a moment ago (a request made then fails, with a
	// response); now they are back
	outage := ""
	if c.T.Bool(1, 4) {
		// (in some runs the outage lasted long enough for dozens of requests to fail)
		nfail := 1
		if c.T.Bool(1, 8) {
			nfail = 30 + c.T.Choose(20)
			c.S.Count("probe.many_requests_failed_during_outage")
		}
		var pre *env.Pending
		for i := 0; i < nfail; i++ {
			pl := c.T.Bytes(30+c.T.Choose(300), 0x7a)
			kb := append(binary.BigEndian.AppendUint32(nil, uint32(len(pl))), pl...)
			t1 := time.Now()
			pre = c.W.Start(&env.HTTPReq{Name: fmt.Sprintf("kp-pre%d", i), From: "10.5.0.2:52999", Method: "POST", Path: "/KdcProxy", Body: codec.KDCProxyMessage(kb, "", false), Header: [][2]string{{"Content-Type", "application/kerberos"}}})
			c.W.WaitAll([]*env.Pending{pre}, 40*time.Second)
			if pre.Res.Status == 0 || pre.Res.Status == 200 || time.Since(t1) > 15*time.Second {
				c.S.Fail("C20", "outage-request", "a request made while every KDC of the realm refuses connections got status %d after %v (eof=%v timeout=%v)", pre.Res.Status, time.Since(t1).Round(time.Millisecond), pre.Res.EOF, pre.Res.Timeout)
				return
			}
		}
		gap := time.Duration(c.T.Choose(25)) * time.Second
		c.S.Advance(gap)
		outage = fmt.Sprintf("after-an-outage(%d at the time, %v ago) ", pre.Res.Status, gap)
		c.S.Count("fault.kdc.outage_then_recovery")
	}
	// KDC behaviours per endpoint and protocol
	blackholed := map[string]bool{}
	c.S.DialHook = func(network, from, to string) sim.DialVerdict {
		if network == "tcp" && blackholed[to] {
			return sim.DialBlackhole
		}
		return sim.DialDefault
	}
	var kdcs []*env.KDC
	var kd []string
	answering := 0
	deaf := 0
	for _, addr := range realms[realmName] {
		tb := []string{"reply-close", "reply-open", "partial", "partial-close", "close", "silent", "refuse", "blackhole", "drip", "reply-krb-error", "garbage", "deaf", "close-then-silent", "reply-pieces", "reply-pieces"}[c.T.Choose(15)]
		ub := []string{"reply-open", "silent", "refuse", "refuse"}[c.T.Choose(4)]
		if tb == "blackhole" {
			// connection attempts get no answer at all (packets dropped on the way)
			blackholed[addr] = true
		} else if tb != "refuse" {
			rep := c.T.Bytes(1+c.T.Choose(2000), 0x71)
			reply := append(binary.BigEndian.AppendUint32(nil, uint32(len(rep))), rep...)
			switch tb {
			case "reply-krb-error":
				// the KDC's answer is an error message (service unavailable, pre-authentication
				// required, ...): it is the KDC's reply all the same
				rep = codec.KRBError([]byte{29, 25, 6, 24, 13}[c.T.Choose(5)], realmName)
				reply = append(binary.BigEndian.AppendUint32(nil, uint32(len(rep))), rep...)
			case "garbage":
				// not a framed reply: a length prefix with the top bit set, a zero length, text
				reply = [][]byte{append([]byte{0x80 | byte(c.T.Choose(128)), 0xff, 0x01, 0x02}, rep...), []byte("HTTP/1.1 400 Bad Request\r\n\r\n"), append([]byte{0xff, 0xff, 0xff, 0xf0}, rep...)}[c.T.Choose(3)]
			case "deaf":
				deaf++
			}
			kd1 := c.W.AddKDC("tcp", addr, tb, reply)
			// (a dripped reply takes 6-40 s in all: longer than the proxy waits)
			kd1.DripGap = time.Duration(1+c.T.Choose(4)) * time.Second
			if tb == "reply-pieces" {
				// 2-4 segments, 1-300 ms apart; the first may end inside the length prefix, right
				// behind it, or anywhere in the body
				for k := 1 + c.T.Choose(3); k > 0; k-- {
					kd1.Cuts = append(kd1.Cuts, []int{1 + c.T.Choose(3), 1 + c.T.Choose(999), 1 + c.T.Choose(999)}[c.T.Choose(3)])
				}
				sort.Ints(kd1.Cuts)
				kd1.PieceGap = time.Duration(1+c.T.Choose(300)) * time.Millisecond
			}
			kdcs = append(kdcs, kd1)
		}
		if ub != "refuse" {
			kdcs = append(kdcs, c.W.AddKDC("udp", addr, ub, c.T.Bytes([]int{1 + c.T.Choose(1200), 1 + c.T.Choose(1200), 4096, 4097, 9000, 30000}[c.T.Choose(6)], 0x72)))
		}
		if strings.HasPrefix(tb, "reply") {
			answering++
		}
		if ub == "reply-open" {
			answering++
		}
		kd = append(kd, fmt.Sprintf("%s{tcp=%s udp=%s}", addr, tb, ub))
	}
	other := c.W.AddKDC("tcp", "kdc.other.test:88", "reply-close", []byte{0, 0, 0, 1, 9})
	otherU := c.W.AddKDC("udp", "kdc.other.test:88", "reply-open", []byte{9})
	// the request
	payload := c.T.Bytes([]int{0, 1, 200, 1400, 1500, 9000, 65000, 131100, 65503, 65504, 70000, 100000, 130000}[c.T.Weighted(1, 1, 4, 2, 2, 2, 1, 1, 1, 1, 1, 1, 1)], 0x73)
	kerb := append(binary.BigEndian.AppendUint32(nil, uint32(len(payload))), payload...)
	answeringSmall := answering // for the (small) concurrent requests
	if len(payload) > 65507 {
		// larger than any UDP datagram: only the TCP endpoints can answer this request
		answering = 0
		for _, k := range kdcs {
			if k.Proto == "tcp" && strings.HasPrefix(k.Behave, "reply") {
				answering++
			}
		}
	}
	realmKind := []string{"default", "configured", "unknown"}[c.T.Weighted(3, 3, 1)]
	defect := []string{"", "", "", "", "GET", "no-length", "bad-der", "trailing", "short-kerb"}[c.T.Choose(9)]
	if len(payload) > 131000 && defect != "GET" && defect != "no-length" {
		defect = "too-large"
	}
	// the optional dclocator-hint field: absent, or present with any value (0 included)
	hint := []int64{-1, -1, -1, 0, 1, 0x40000000}[c.T.Choose(6)]
	var body []byte
	switch realmKind {
	case "default":
		// no target-domain at all, or an explicitly empty one
		body = codec.KDCProxyMessageHint(kerb, "", c.T.Bool(1, 4), hint)
	case "configured":
		body = codec.KDCProxyMessageHint(kerb, realmName, true, hint)
	default:
		// (unknown realms in any spelling: none of them is the default realm)
		body = codec.KDCProxyMessageHint(kerb, []string{"NOWHERE.TEST", "nosuch.test", "Nosuch.Test", "corp", "NOWHERE.TEST."}[c.T.Choose(5)], true, hint)
	}
	if len(payload) >= 130000 && len(payload) < 131000 && defect == "" {
		// requests right at the limit: the body (not the embedded message) is what the 128 KiB
		// are about; 131072 bytes are carried, 131073 and a few more are not
		target := 131072 + []int{0, 0, 1, 2, 7, 15, 100}[c.T.Choose(7)]
		for k := 0; k < 3 && len(body) != target; k++ {
			payload = c.T.Bytes(len(payload)+target-len(body), 0x73)
			kerb = append(binary.BigEndian.AppendUint32(nil, uint32(len(payload))), payload...)
			switch realmKind {
			case "default":
				body = codec.KDCProxyMessageHint(kerb, "", false, hint)
			case "configured":
				body = codec.KDCProxyMessageHint(kerb, realmName, true, hint)
			default:
				body = codec.KDCProxyMessageHint(kerb, "NOWHERE.TEST", true, hint)
			}
		}
		if len(body) > 131072 {
			defect = "too-large"
		}
		c.S.Count("probe.body_at_the_size_limit")
	}
	req := &env.HTTPReq{Name: "kp", From: "10.5.0.3:53000", Method: "POST", Path: "/KdcProxy", Body: body, Header: [][2]string{{"Content-Type", "application/kerberos"}}}
	wantStatus := 0
	switch defect {
	case "GET":
		req.Method, req.Body, wantStatus = "GET", nil, 405
	case "no-length":
		req.Chunked = true
		req.Header = append(req.Header, [2]string{"Transfer-Encoding", "chunked"})
		req.Body = append(codec.Chunk(body), []byte("0\r\n\r\n")...)
		wantStatus = 411
	case "bad-der":
		bad := append([]byte{}, body...)
		bad[0] = 0x31
		if c.T.Bool(1, 2) {
			bad = bad[:len(bad)/2]
		}
		req.Body, wantStatus = bad, 400
	case "trailing":
		req.Body, wantStatus = append(append([]byte{}, body...), 0x05, 0x00), 400
	case "too-large":
		wantStatus = 413
	case "short-kerb":
		// an embedded message shorter than its own 4-byte length prefix
		kerb = kerb[:c.T.Choose(4)]
		req.Body = codec.KDCProxyMessage(kerb, "", false)
		realmKind = "default"
	}
	descr := outage + fmt.Sprintf("realm=%s other-realm=%s kdcs=%s request{realm=%s hint=%d payload=%d defect=%q}", realmName, otherName, strings.Join(kd, " "), realmKind, hint, len(payload), defect)
	c.Res.CaseKey = descr
	t0 := time.Now()
	// companions: further well-formed requests for the default realm in flight at the same time
	var comp []*env.Pending
	var compKerb [][]byte
	if c.T.Bool(1, 3) {
		for i := 0; i < 1+c.T.Choose(2); i++ {
			pl := c.T.Bytes(20+c.T.Choose(900), byte(0x80+i))
			kb := append(binary.BigEndian.AppendUint32(nil, uint32(len(pl))), pl...)
			compKerb = append(compKerb, kb)
			comp = append(comp, c.W.Start(&env.HTTPReq{Name: fmt.Sprintf("kp-c%d", i), From: fmt.Sprintf("10.5.0.%d:53100", 10+i), Method: "POST", Path: "/KdcProxy", Body: codec.KDCProxyMessage(kb, "", false), Header: [][2]string{{"Content-Type", "application/kerberos"}}}))
		}
		c.S.Count("probe.concurrent_requests")
		descr += fmt.Sprintf(" +%d concurrent requests", len(comp))
	}
	if defect == "" && c.T.Bool(1, 4) {
		// the client half-closes its connection after the request and waits for the answer
		req.HalfClose = true
		descr += " client-half-closes"
	}
	main := c.W.Start(req)
	c.W.WaitAll(append([]*env.Pending{main}, comp...), 40*time.Second)
	r := main.Res
	took := time.Since(t0)
	if r.Status != 0 && took > 15*time.Second && len(comp) > 0 {
		took = 0 // the wait covers the slowest of the concurrent requests; judged per request below
	}
	// KDC connections that carry the main request's embedded message (companions make their own)
	contacted := 0
	for _, k := range kdcs {
		for _, g := range k.Got {
			if len(comp) == 0 || (len(kerb) >= 4 && len(g) > 0 && (bytes.Equal(g, kerb) || bytes.Equal(g, kerb[4:]))) {
				contacted++
			}
		}
		if len(comp) == 0 {
			contacted += k.Accepted - len(k.Got)
		}
	}
	sample := fmt.Sprintf("%s => status=%d after %v, kdc-connections=%d", descr, r.Status, took.Round(time.Millisecond), contacted)
	c.Samplef("%s", sample)
	c.Res.Reach = true
	c.S.Count("probe.request." + realmKind)
	// every request gets an HTTP response within the bound
	if r.Status == 0 {
		sig := "no-http-response"
		if r.Timeout {
			sig = "hang"
		}
		if panics := c.W.Log.Grep("http: panic serving"); len(panics) > 0 {
			sig += ":panic"
			sample += " log: " + firstLine(panics[0])
		}
		if answering == 0 && defect == "" {
			sig += ":no-kdc-answers"
		}
		c.S.Fail("C20", sig, "%s: no HTTP response (eof=%v timeout=%v)", sample, r.EOF, r.Timeout)
		return
	}
	// the proxy's own timeout is 5 s per step; connection attempts that get no answer are
	// made one after the other
	bound := 15*time.Second + time.Duration(len(blackholed)+deaf)*5*time.Second
	if took > bound {
		c.S.Fail("C20", "slow-response", "%s: response after %v (bound %v)", sample, took, bound)
		return
	}
	if other.Accepted+otherU.Accepted > 0 {
		c.S.Fail("C20", "wrong-realm-contacted", "%s: a KDC of another realm was contacted", sample)
		return
	}
	for i, p := range comp {
		cr := p.Res
		if cr.Status == 0 {
			c.S.Fail("C20", "no-http-response:concurrent", "%s: concurrent request %d got no HTTP response (eof=%v timeout=%v)", sample, i, cr.EOF, cr.Timeout)
			return
		}
		if answeringSmall == 0 {
			if cr.Status == 200 {
				c.S.Fail("C20", "reply-invented", "%s: concurrent request %d: no KDC answers, yet 200", sample, i)
				return
			}
			continue
		}
		msg, err := codec.ParseKDCProxyReply(cr.Body)
		if cr.Status != 200 || err != nil || !matchesKDC(kdcs, compKerb[i], msg) {
			c.S.Fail("C20", "answer-not-relayed:concurrent", "%s: concurrent request %d: status %d, body is the reply to this request: %v (%v)", sample, i, cr.Status, err == nil && matchesKDC(kdcs, compKerb[i], msg), err)
			return
		}
	}
	if wantStatus != 0 {
		if r.Status != wantStatus {
			c.S.Fail("C20", fmt.Sprintf("status-for-%s", defect), "%s: expected %d", sample, wantStatus)
		} else if contacted > 0 {
			c.S.Fail("C20", "kdc-contacted-for-rejected-request", "%s: the request was rejected but %d KDC connections were made", sample, contacted)
		}
		return
	}
	if defect == "short-kerb" {
		if r.Status == 200 {
			c.S.Fail("C20", "short-message-accepted", "%s: a message shorter than its length prefix got 200", sample)
		}
		return
	}
	if realmKind == "unknown" {
		if r.Status == 200 || contacted > 0 {
			c.S.Fail("C20", "unknown-realm", "%s: unknown realm must be an error and contact nobody", sample)
		}
		return
	}
	if answering == 0 {
		if r.Status == 200 {
			c.S.Fail("C20", "reply-invented", "%s: no KDC answered, yet 200", sample)
		}
		return
	}
	// a reachable, answering KDC exists: the reply must be relayed faithfully
	if r.Status != 200 {
		c.S.Fail("C20", "answer-not-relayed", "%s: %d KDC endpoint(s) answer completely, yet status %d %.60q", sample, answering, r.Status, r.Body)
		return
	}
	msg, err := codec.ParseKDCProxyReply(r.Body)
	if err != nil {
		c.S.Fail("C20", "reply-not-kdc-proxy-message", "%s: body is not a KDC-PROXY-MESSAGE: %v", sample, err)
		return
	}
	matched, gotIt, proto := false, false, ""
	for _, k := range kdcs {
		if !(strings.HasPrefix(k.Behave, "reply")) {
			continue
		}
		sentWant := kerb
		if k.Proto == "udp" {
			sentWant = kerb[4:]
		}
		want := k.ReplyFor(sentWant)
		if k.Proto == "udp" {
			want = append(binary.BigEndian.AppendUint32(nil, uint32(len(want))), want...)
		}
		if bytes.Equal(msg, want) {
			// (several KDCs may give the same reply: one of them must have been asked properly)
			matched, proto = true, k.Proto
			for _, g := range k.Got {
				if bytes.Equal(g, sentWant) {
					gotIt = true
				}
			}
		}
	}
	if matched && !gotIt {
		c.S.Fail("C20", "request-altered:"+proto, "%s: no KDC whose reply was returned received exactly the embedded message (over %s)", sample, proto)
		return
	}
	if !matched {
		c.S.Fail("C20", "reply-altered", "%s: the returned kerb-message (%d bytes %s) is not the reply of any answering KDC", sample, len(msg), short(msg))
	}
	c.S.Count("probe.relayed")
}

func firstLine(s string) string {
	if i := strings.IndexByte(s, '\n'); i >= 0 {
		return s[:i]
	}
	return s
}

// matchesKDC reports whether msg is what some answering KDC replies to the embedded message.
func matchesKDC(kdcs []*env.KDC, kerb, msg []byte) bool {
	for _, k := range kdcs {
		if !strings.HasPrefix(k.Behave, "reply") {
			continue
		}
		sent := kerb
		if k.Proto == "udp" {
			sent = kerb[4:]
		}
		want := k.ReplyFor(sent)
		if k.Proto == "udp" {
			want = append(binary.BigEndian.AppendUint32(nil, uint32(len(want))), want...)
		}
		if bytes.Equal(msg, want) {
			return true
		}
	}
	return false
}
