package scen

import (
	"fmt"
	"net"
	"strings"

	"simh/env"
)

func init() {
	Register("c04", runC04)
}

var c04Odd = []string{"", "unknown", "_hidden", "fe80::1%eth0", "fe80::2%eth0", "fe80::1%eth1", "10.1.0.10:5555", "10.1.0.11:5555", "[2001:db8::7]:4711", "client-a.example.test", "client-b.example.test",
	// legal spellings of IPv6 addresses that are not the canonical text form
	"2001:DB8::7", "2001:0db8:0000:0000:0000:0000:0000:0007", "::ffff:203.0.113.9", "2001:db8:0:0:1::7"}

var c04Addrs = []string{"10.1.0.10", "192.168.7.7", "172.16.200.3", "2001:db8::7", "fe80::1", "203.0.113.9", "10.1.0.11", "::1", "127.0.0.1"}

// nearAddr is a different address whose text is close to a: the other is a proper prefix or
// a superstring of it, or differs in one character.
func nearAddr(c *Ctx, a string) string {
	switch c.T.Choose(5) {
	case 0:
		return a + string("0123456789"[c.T.Choose(10)])
	case 1:
		if len(a) > 1 && a[len(a)-2] != '.' && a[len(a)-2] != ':' {
			return a[:len(a)-1]
		}
		return a + "1"
	case 2:
		if strings.Contains(a, ":") {
			return a + ":2"
		}
		return a + "0"
	case 3:
		b := []byte(a)
		i := len(b) - 1
		if b[i] == '9' {
			b[i] = '8'
		} else if b[i] >= '0' && b[i] < '9' {
			b[i]++
		} else {
			b[i] = '1'
		}
		return string(b)
	default:
		return "1" + a
	}
}

func sameIP(a, b string) bool {
	x, y := net.ParseIP(a), net.ParseIP(b)
	return x != nil && y != nil && x.Equal(y)
}

func peerOf(ip string, port int) string {
	if strings.Contains(ip, ":") {
		return fmt.Sprintf("[%s]:%d", ip, port)
	}
	return fmt.Sprintf("%s:%d", ip, port)
}

// runC04: a token issued to address A is presented from address B.
func runC04(c *Ctx) {
	tw := PlanTunnels(c, TunOpts{N: 1, Transports: []string{"ws", "legacy"}})
	p := tw.Plans[0]
	verify := c.T.Choose(3) // 0 absent (default on), 1 true, 2 false
	switch verify {
	case 1:
		tw.Cfg.VerifyClientIP = env.Bool(true)
	case 2:
		tw.Cfg.VerifyClientIP = env.Bool(false)
	}
	tw.Cfg.Hosts = []string{p.AllowedHost}
	if !BootTun(c, tw, false) {
		return
	}
	ia := c.T.Choose(len(c04Addrs))
	addrA := c04Addrs[ia]
	same := c.T.Bool(1, 2)
	addrB := addrA
	// what a proxy puts into X-Forwarded-For need not be an address literal: zone-scoped
	// link-local addresses, address:port, obfuscated identifiers (RFC 7239) and names occur;
	// different strings are different clients
	oddA, oddB := false, false
	if c.T.Bool(1, 5) {
		io := c.T.Choose(len(c04Odd))
		addrA, addrB, oddA, oddB = c04Odd[io], c04Odd[io], true, true
		if !same {
			addrB = c04Odd[(io+1+c.T.Choose(len(c04Odd)-1))%len(c04Odd)]
			if c.T.Bool(1, 4) {
				addrB, oddB = c04Addrs[ia], false
			}
		}
	} else if !same {
		// never a rejection loop on the tape: a replayed tape of zeros must terminate
		addrB = c04Addrs[(ia+1+c.T.Choose(len(c04Addrs)-1))%len(c04Addrs)]
		if c.T.Bool(1, 2) {
			addrB = nearAddr(c, addrA) // textual near miss: prefix, superstring, one character
			if addrB == addrA {
				addrB = addrA + "9"
			}
		}
	}
	if addrA != addrB && sameIP(addrA, addrB) {
		// one address in two spellings is neither "the same text" nor "another address": not judged
		addrB = addrA
		oddB = oddA
	}
	// how B's address reaches the gateway: TCP peer, or first X-Forwarded-For element
	peerIP := addrB
	viaXFF := c.T.Bool(1, 2) || oddB
	if viaXFF {
		peerIP = []string{"10.200.0.1", "10.200.0.2", addrA}[c.T.Choose(3)] // the proxy; may even be A itself
		chain := []string{addrB}
		nmore := c.T.Choose(4)
		if c.T.Bool(1, 6) {
			// a long way through proxies and load balancers
			nmore = 7 + c.T.Choose(25)
			c.S.Count("probe.long_forwarded_for_chain")
		}
		if addrB == "" && nmore == 0 {
			nmore = 1 // an empty first element needs a second one to be a list at all
		}
		for k := nmore; k > 0; k-- {
			chain = append(chain, []string{"10.200.0.9", addrA, "198.51.100.1", "unknown"}[c.T.Choose(4)])
		}
		sep := []string{",", ", ", " , "}[c.T.Choose(3)]
		p.XFF = strings.Join(chain, sep)
	}
	p.From = peerOf(peerIP, 40000)
	note := ""
	if p.Transport == "legacy" && c.T.Bool(1, 3) {
		// the OUT channel comes from elsewhere; the presenting connection is IN
		p.InFrom = p.From
		p.From = peerOf(c04Addrs[c.T.Choose(len(c04Addrs))], 40001)
		note = " out-from=" + p.From
		if viaXFF {
			// both requests carry the header; keep the peer difference only
		}
	}
	expectAllowed := verify == 2 || addrA == addrB
	// issuance to A: through the real download flow (the browser's address is A, as TCP peer or
	// as first X-Forwarded-For element), or a harness-minted cookie whose clientIp claim is A
	cookie := MintCookie(c, tw.Cfg.PAASigningKey, p.User, p.AllowedHost, addrA, p.AccessToken, 5*60*1e9)
	issued := "minted"
	if c.T.Bool(1, 2) {
		bfrom := peerOf(addrA, 52000)
		if oddA {
			bfrom = "10.200.0.7:52000"
		}
		b := c.W.NewBrowser("b1", bfrom)
		issued = "real-download(peer)"
		if c.T.Bool(1, 2) || oddA {
			b.From = "10.200.0.7:52000"
			b.XFF = addrA + []string{"", ", 10.200.0.9", " , 198.51.100.2, 10.200.0.9", strings.Repeat(", 198.51.100.2, 10.200.0.9", 6)}[c.T.Choose(4)]
			if addrA == "" {
				b.XFF = ", 10.200.0.9"
			}
			issued = "real-download(xff=" + b.XFF + ")"
		}
		// the session may have been established from somewhere else: the address that counts
		// is the one of the download request
		loginFrom, loginXFF := b.From, b.XFF
		switch c.T.Weighted(2, 2, 1) {
		case 1:
			b.From, b.XFF = peerOf(c04Addrs[(ia+3)%len(c04Addrs)], 52001), ""
			issued += " after login from " + b.From
		case 2:
			// the same proxy (same upstream peer address) forwarded the login for another client
			if b.XFF != "" {
				b.XFF = c04Addrs[(ia+3)%len(c04Addrs)] + ", 10.200.0.9"
				issued += " after login through the same proxy for " + b.XFF
			}
		}
		if ok, cb := b.Login("/connect", &env.IdPUser{Sub: p.User, Claims: map[string]any{"preferred_username": p.User}}); !ok {
			c.Infra("login failed: callback status %d body %.100q", cb.Status, cb.Body)
			return
		}
		b.From, b.XFF = loginFrom, loginXFF
		fr := b.Get("/connect")
		if !gotFile(fr) {
			c.Infra("no connection file after login: %d %.100q", fr.Status, fr.Body)
			return
		}
		f := env.ParseRDP(fr.Body)
		cookie = f.Values["gatewayaccesstoken"]
		if f.Values["full address"] != p.AllowedHost {
			c.Infra("unexpected host in the issued file: %q", f.Values["full address"])
			return
		}
		c.S.Count("probe.issued_by_real_download")
		if c.T.Bool(1, 3) {
			// restart between issuance and use, with another setting of the verification switch
			// (an administrator turns it on or off): what counts at use is the switch as it is now
			// and the address the token recorded when it was issued
			c.W.GW.Stop()
			verify = (verify + 1 + c.T.Choose(2)) % 3
			tw.Cfg.VerifyClientIP = []*bool{nil, env.Bool(true), env.Bool(false)}[verify]
			g2 := c.W.Boot(tw.Cfg)
			if g2.Exited || g2.Server == nil {
				c.Infra("gateway did not restart: %s", g2.ExitLine)
				return
			}
			expectAllowed = verify == 2 || addrA == addrB
			issued += fmt.Sprintf(" then-restart-with-verifyclientip=%s", []string{"default", "true", "false"}[verify])
			c.S.Count("fault.gateway.restart_with_other_verify_setting")
		}
	}
	cc := PChannel(p.AllowedHost, HostAllowed)
	if !expectAllowed {
		cc.Verdict = HostDenied
		cc.AnyDenied = true
	}
	p.HostScript = [][]byte{[]byte("host-bytes")}
	p.Pkts = []CPkt{PHandshake(tw.MC.ServerCaps, 1, 0), PTunnelCreate(cookie, true), PTunnelAuth("n"), cc, PData(c.T.Bytes(20, 4))}
	if p.Transport == "legacy" && c.T.Bool(1, 3) {
		// the presenting client makes another request with the tunnel's connection id while
		// the tunnel is being authorised (a retried RDG_IN_DATA): the address the token is
		// compared with stays the one recorded in the token
		p.DupIn, p.DupAfter = 2, 1+c.T.Choose(3)
		note += fmt.Sprintf(" retried-IN-after=%d", p.DupAfter)
	}
	tw.Tuns = StartTunnels(c, tw.Plans)
	RunTunnels(c, tw.Tuns, 2000)
	t := tw.Tuns[0]
	if t.Client.Failed != "" || t.Err != "" {
		c.Infra("transport setup failed: %s %s", t.Client.Failed, t.Err)
		return
	}
	CheckTunnel(c, t, tw.MC, "C04")
	if v := c.S.Viol; v != nil && v.Oracle != "C04" {
		switch v.Sig {
		case "valid-step-refused", "success-out-of-order", "dial-unauthorised", "relay-unauthorised", "host-stream-mismatch":
			v.Oracle = "C04"
			v.Msg = fmt.Sprintf("issued-to=%q presented-from=%q (peer=%s xff=%q verify=%d): %s", addrA, addrB, p.From, p.XFF, verify, v.Msg)
		}
	}
	if c.S.Viol == nil {
		if expectAllowed {
			c.S.Count("probe.accepted_same_or_unverified")
			if len(c.S.DialLog) != 1 {
				c.S.Fail("C04", "no-channel-for-matching-address", "issued-to=%q presented-from=%q verify=%d: expected a channel, dials=%d events=%s", addrA, addrB, verify, len(c.S.DialLog), t.Client.Describe())
			}
		} else {
			c.S.Count("probe.refused_other_address")
			if len(c.S.DialLog) != 0 {
				c.S.Fail("C04", "dial-from-other-address", "issued-to=%q presented-from=%q verify=%d: the gateway dialed %q", addrA, addrB, verify, c.S.DialLog[0].To)
			}
		}
	}
	c.Res.Reach = len(t.Client.Sent) >= 4
	c.Samplef("%s verify=%s issuance=%s issued-to=%s presented-from=%s via{peer=%s%s xff=%q} => expect-allowed=%v events=%s", p.Transport,
		[]string{"default", "true", "false"}[verify], issued, addrA, addrB, peerOf(peerIP, 40000), note, p.XFF, expectAllowed, t.Client.Describe())
}
