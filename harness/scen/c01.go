package scen

import (
	"fmt"
	"strings"
	"time"

	"simh/codec"
	"simh/sim"
)

func init() {
	Register("c01", runC01)
}

// badCookie returns a cookie the acceptance model refuses, of a drawn kind.
func badCookie(c *Ctx, tw *TunWorld, p *TunPlan) (string, string) {
	ip := clientIP(p.From)
	switch c.T.Choose(7) {
	case 0:
		return "", "empty"
	case 1:
		return string(codec.B64(c.T.Bytes(40, 7))), "garbage"
	case 2:
		return MintCookie(c, "another-key-another-key-another-k", p.User, p.AllowedHost, ip, p.AccessToken, 5*time.Minute), "wrong-key"
	case 3:
		return MintCookie(c, tw.Cfg.PAASigningKey, p.User, p.AllowedHost, ip, p.AccessToken, -10*time.Minute), "expired"
	case 4:
		exp := time.Now().Add(5 * time.Minute).Unix()
		return codec.MintPAA([]byte(tw.Cfg.PAASigningKey), codec.PAAClaims{Iss: "someone", Sub: p.User, Exp: &exp, RemoteServer: p.AllowedHost, ClientIP: ip, AccessToken: p.AccessToken}), "wrong-issuer"
	case 5:
		return MintCookie(c, tw.Cfg.PAASigningKey, p.User, p.AllowedHost, ip, "at-unknown", 5*time.Minute), "unknown-access-token"
	default:
		v := ValidCookie(c, tw, p, p.AllowedHost)
		// flip one character of the signature (not the last one: its low bits are base64
		// slack, and a change there spells the same signature)
		b := []byte(v)
		i := len(b) - 2 - c.T.Choose(20)
		if b[i] == 'A' {
			b[i] = 'B'
		} else {
			b[i] = 'A'
		}
		return string(b), "sig-flip"
	}
}

// randomPacket draws one packet of any kind for insertion into a history.
func randomPacket(c *Ctx, tw *TunWorld, p *TunPlan) CPkt {
	switch c.T.Choose(12) {
	case 0:
		return PHandshake(tw.MC.ServerCaps, 1, 0)
	case 1:
		return PTunnelCreate(ValidCookie(c, tw, p, p.AllowedHost), true)
	case 2:
		ck, _ := badCookie(c, tw, p)
		return PTunnelCreate(ck, false)
	case 3:
		return PTunnelAuth("x")
	case 4:
		if c.T.Bool(1, 4) {
			// the request also lists alternate names of the resource (MS-TSGU allows up to three)
			return PChannelAlts(p.AllowedHost, HostAllowed, [][]string{{p.AllowedHost}, {p.DeniedHost}, {p.DeniedHost, p.UnreachHost, p.AllowedHost}}[c.T.Choose(3)])
		}
		return PChannel(p.AllowedHost, HostAllowed)
	case 5:
		return PChannel(p.DeniedHost, HostDenied)
	case 6:
		if c.T.Bool(1, 2) {
			return PChannelAlts(p.UnreachHost, HostUnreachable, []string{p.DeniedHost, p.AllowedHost}[:1+c.T.Choose(2)])
		}
		return PChannel(p.UnreachHost, HostUnreachable)
	case 7:
		return PData(c.T.Bytes(1+c.T.Choose(64), 0x55))
	case 8:
		return PKeepalive()
	case 9:
		return PClose()
	case 10:
		// types that exist in MS-TSGU but are not client requests handled here, and beyond
		ts := []uint16{0x0, 0x2, 0x3, 0x5, 0x7, 0x9, 0xB, 0xC, 0xE, 0xF, 0x11, 0x12, 0xFF, 0x100, 0xFFFF}
		return PUnknown(ts[c.T.Choose(len(ts))], c.T.Bytes(c.T.Choose(16), 1))
	default:
		return PUnknown(uint16(0x12+c.T.Choose(0xff)), nil)
	}
}

// mutateHistory applies up to two near-valid mutations and a tail that follows any error.
func mutateHistory(c *Ctx, tw *TunWorld, p *TunPlan, h []CPkt) ([]CPkt, []string) {
	var notes []string
	nm := c.T.Weighted(2, 5, 3)
	for m := 0; m < nm; m++ {
		switch c.T.Choose(8) {
		case 0: // skip one
			i := c.T.Choose(len(h))
			notes = append(notes, fmt.Sprintf("skip %s", h[i]))
			h = append(append([]CPkt{}, h[:i]...), h[i+1:]...)
		case 1: // repeat one
			i := c.T.Choose(len(h))
			j := i + 1 + c.T.Choose(len(h)-i)
			notes = append(notes, fmt.Sprintf("repeat %s at %d", h[i], j))
			h = append(append(append([]CPkt{}, h[:j]...), h[i]), h[j:]...)
		case 2: // swap two adjacent
			if len(h) >= 2 {
				i := c.T.Choose(len(h) - 1)
				notes = append(notes, fmt.Sprintf("swap %d", i))
				h = append([]CPkt{}, h...)
				h[i], h[i+1] = h[i+1], h[i]
			}
		case 3: // insert a random packet
			i := c.T.Choose(len(h) + 1)
			pk := randomPacket(c, tw, p)
			notes = append(notes, fmt.Sprintf("insert %s at %d", pk, i))
			h = append(append(append([]CPkt{}, h[:i]...), pk), h[i:]...)
		case 4: // bad cookie
			for i := range h {
				if h[i].Kind == KTunnelCreate && !h[i].Malformed {
					ck, kind := badCookie(c, tw, p)
					notes = append(notes, "cookie "+kind)
					h = append([]CPkt{}, h...)
					h[i] = PTunnelCreate(ck, false)
					if !tw.MC.TokenAuth {
						h[i].CookieOK = true
					}
					break
				}
			}
		case 5: // denied or unreachable host
			for i := range h {
				if h[i].Kind == KChannelCreate && !h[i].Malformed {
					h = append([]CPkt{}, h...)
					if c.T.Bool(1, 2) {
						h[i] = PChannel(p.UnreachHost, HostUnreachable)
						notes = append(notes, "host unreachable")
						if c.T.Bool(1, 2) {
							// the request lists alternate names (hosts that do answer)
							h[i] = PChannelAlts(p.UnreachHost, HostUnreachable, [][]string{{p.DeniedHost}, {p.AllowedHost}, {p.DeniedHost, p.AllowedHost, p.DeniedHost}}[c.T.Choose(3)])
							notes = append(notes, "with alternate names")
						}
					} else {
						h[i] = PChannel(p.DeniedHost, HostDenied)
						notes = append(notes, "host denied")
					}
					break
				}
			}
		case 6: // malformed body
			i := c.T.Choose(len(h))
			// (cutting a channel create inside its alternate names leaves the request itself intact)
			if h[i].Kind != KUnknown && h[i].Kind != KKeepalive && h[i].Kind != KData && !h[i].Malformed && !h[i].Alts && len(h[i].Bytes) > 12 {
				body := len(h[i].Bytes) - 8
				keep := c.T.Choose(body - 4)
				notes = append(notes, fmt.Sprintf("truncate %s to %d", h[i], keep))
				h = append([]CPkt{}, h...)
				h[i] = Truncate(h[i], keep)
			}
		case 7: // unknown type somewhere
			i := c.T.Choose(len(h) + 1)
			pk := PUnknown(uint16(c.T.Choose(0x10000)), c.T.Bytes(c.T.Choose(8), 3))
			if pktType(KHandshake) == int(pk.Type) || isKnownClientType(pk.Type) {
				pk = PUnknown(0x77, nil)
			}
			notes = append(notes, fmt.Sprintf("insert %s at %d", pk, i))
			h = append(append(append([]CPkt{}, h[:i]...), pk), h[i:]...)
		}
	}
	// something always follows the end, so that "nothing further is answered" is exercised
	for k := c.T.Choose(3); k > 0; k-- {
		h = append(h, randomPacket(c, tw, p))
	}
	if len(h) > 14 {
		h = h[:14]
	}
	return h, notes
}

func isKnownClientType(t uint16) bool {
	switch t {
	case codec.PktHandshakeRequest, codec.PktTunnelCreate, codec.PktTunnelAuth, codec.PktChannelCreate, codec.PktData, codec.PktKeepalive, codec.PktCloseChannel:
		return true
	}
	return false
}

func runC01(c *Ctx) {
	n := 1 + c.T.Weighted(6, 3, 1)
	tw := PlanTunnels(c, TunOpts{N: n, Transports: []string{"ws", "legacy"}})
	tw.Cfg.SmartCardAuth = c.T.Bool(1, 4)
	tw.NTLM = c.T.Bool(1, 5) // token auth off: tunnels authenticate with NTLM at HTTP level
	if !BootTun(c, tw, false) {
		return
	}
	blackhole := c.T.Bool(1, 3)
	c.S.DialHook = func(network, from, to string) sim.DialVerdict {
		if blackhole && strings.HasPrefix(to, "u-") {
			return sim.DialBlackhole
		}
		return sim.DialDefault
	}
	var descr []string
	for _, p := range tw.Plans {
		p.HostScript = [][]byte{c.T.Bytes(1+c.T.Choose(300), 0xA0), c.T.Bytes(1+c.T.Choose(5000), 0xA1)}
		nd := c.T.Choose(4)
		h := IdealHistory(c, tw, p, nd, func() int { return 1 + c.T.Choose(200) }, c.T.Bool(1, 2))
		var notes []string
		p.Pkts, notes = mutateHistory(c, tw, p, h)
		if p.Transport == "legacy" && c.T.Bool(1, 4) {
			p.DupIn = 1 + c.T.Choose(2)
			p.DupAfter = c.T.Choose(len(p.Pkts) + 1)
			notes = append(notes, fmt.Sprintf("second IN request (%d, after %d)", p.DupIn, p.DupAfter))
		}
		if c.T.Bool(1, 8) {
			p.CloseAfter = c.T.Choose(len(p.Pkts) + 1)
			p.CloseReset = c.T.Bool(1, 2)
			notes = append(notes, fmt.Sprintf("client drops after %d", p.CloseAfter))
		}
		descr = append(descr, fmt.Sprintf("%s/%s: %s {%s}", p.Name, p.Transport, planString(p, len(p.Pkts)), strings.Join(notes, "; ")))
	}
	if !tw.NTLM && c.T.Bool(1, 10) {
		// one connection id used by several connections one after the other: a legacy
		// RDG_OUT_DATA request that is never completed, a websocket connection that gets as far
		// as tunnel authorisation and leaves, then a websocket connection whose first packet is a
		// channel create.  What the earlier connections achieved is nothing to the last one.
		p0 := tw.Plans[0]
		id := p0.ConnID
		orphan := c.W.NewTunClient("orph", "legacy", p0.From, id)
		if err := orphan.OpenOut(); err != nil {
			c.Infra("orphan OUT: %v", err)
			return
		}
		c.S.Run(func() bool { return orphan.Status("out") != 0 || orphan.Failed != "" }, 2000, 2*time.Second)
		a := &TunPlan{Name: "ra", Transport: "ws", From: p0.From, ConnID: id, User: p0.User, AccessToken: p0.AccessToken, AllowedHost: p0.AllowedHost, CloseAfter: 3}
		a.Pkts = IdealHistory(c, tw, a, 0, nil, false)[:3]
		b := &TunPlan{Name: "rb", Transport: "ws", From: p0.From, ConnID: id, User: p0.User, AccessToken: p0.AccessToken, AllowedHost: p0.AllowedHost, CloseAfter: -1}
		b.Pkts = []CPkt{PChannel(p0.AllowedHost, HostAllowed), PData([]byte("first packet of this connection was a channel create"))}
		for _, q := range []*TunPlan{a, b} {
			ts := StartTunnels(c, []*TunPlan{q})
			t1 := ts[0]
			c.S.Run(func() bool { return t1.SentAll() || t1.Client.Failed != "" }, 3000, 2*time.Second)
			c.S.Run(nil, 400, 300*time.Millisecond)
			if t1.Client.Failed != "" || t1.Err != "" {
				c.Infra("tunnel %s transport setup failed: %s %s", q.Name, t1.Client.Failed, t1.Err)
				return
			}
			for _, hn := range []string{p0.AllowedHost} {
				if c.W.Host[hn] != nil {
					t1.Hosts = append(t1.Hosts, c.W.Host[hn])
				}
			}
			CheckTunnel(c, t1, tw.MC, "C01")
			if c.S.Viol != nil {
				c.S.Viol.Msg = "[one connection id used by three connections in a row] " + c.S.Viol.Msg
				return
			}
			t1.Client.CloseAll(false)
			c.S.Run(nil, 200, 200*time.Millisecond)
		}
		c.S.Count("probe.connection_id_reused_in_sequence")
		c.Res.Reach = true
		c.Samplef("connection id %s: orphan legacy OUT, websocket up to tunnel auth, websocket starting with a channel create: refused", id)
		return
	}
	tw.Tuns = StartTunnels(c, tw.Plans)
	for _, t := range tw.Tuns {
		for _, h := range t.Hosts {
			// the remote desktop host may hang up on its own (right after accepting, after its
			// banner, or with a reset): whatever the client sends afterwards is judged as before
			switch c.T.Weighted(5, 1, 1, 1) {
			case 1:
				h.CloseAfterScript = true
			case 2:
				h.ResetAfter = c.T.Choose(len(h.Script) + 1)
			case 3:
				h.Script, h.CloseAfterScript = nil, true
			}
		}
	}
	RunTunnels(c, tw.Tuns, 4000)
	reach := false
	var outcome []string
	for _, t := range tw.Tuns {
		if t.Client.Failed != "" || t.Err != "" {
			c.Infra("tunnel %s transport setup failed: %s %s (%s)", t.Plan.Name, t.Client.Failed, t.Err, t.Client.Describe())
			return
		}
		v := CheckTunnel(c, t, tw.MC, "C01")
		if c.S.Viol != nil {
			break
		}
		if len(t.Client.Sent) >= 3 {
			reach = true
		}
		if v.Reached == stOpen {
			c.S.Count("probe.channel_opened")
		}
		if v.Dead {
			c.S.Count("probe.tunnel_refused_or_closed")
		}
		outcome = append(outcome, fmt.Sprintf("%s accepted=%v dead=%v", t.Plan.Name, v.Accepted, v.Dead))
	}
	c.Res.Reach = reach
	c.Samplef("%s => %s", strings.Join(descr, " | "), strings.Join(outcome, "; "))
}
