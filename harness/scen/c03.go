package scen

import (
	"fmt"
	"sort"
	"strings"
	"time"

	"simh/codec"
	"simh/env"
)

func init() {
	Register("c03", runC03)
}

func joinHostPort(host string, port uint16) string {
	if strings.ContainsAny(host, ":%") {
		return fmt.Sprintf("[%s]:%d", host, port)
	}
	return fmt.Sprintf("%s:%d", host, port)
}

type hostReq struct {
	kind     string
	name     []byte // raw UTF-16LE resource name bytes
	declared int    // declared byte length (-1 = len(name))
	port     uint16
	key      string // independently decoded "name:port" ("" if the request is not decodable)
}

// nearMiss draws a requested server/port that is either exactly entry or a near miss that
// names a different endpoint.
func nearMiss(c *Ctx, entry string, otherUserEntry string) hostReq {
	n, port := splitHostPort(entry)
	n = strings.Trim(n, "[]")
	mk := func(kind, name string, p uint16) hostReq {
		return hostReq{kind: kind, name: codec.UTF16LE(name + "\x00"), declared: -1, port: p, key: joinHostPort(name, p)}
	}
	switch c.T.Choose(23) {
	case 0, 1, 2, 3:
		return mk("exact", n, port)
	case 20:
		if int(port)*10+9 <= 65535 {
			return mk("port-superstring", n, port*10+uint16(c.T.Choose(10)))
		}
		return mk("port+1", n, port+1)
	case 21:
		return mk("port-prefix", n, port/10)
	case 22:
		return mk("dotted-suffix", "evil."+n, port)
	case 4:
		return mk("port+1", n, port+1)
	case 5:
		return mk("port0", n, 0)
	case 6:
		return mk("prefix", n[:len(n)-1], port)
	case 7:
		return mk("suffix", n[1:], port)
	case 8:
		return mk("superstring", n+".evil.test", port)
	case 9:
		return mk("superstring-front", "x"+n, port)
	case 10:
		k := 1 + c.T.Choose(len(n)-1)
		return mk("embedded-nul", n[:k]+"\x00"+n[k:], port)
	case 11:
		r := mk("nul-then-suffix", n+"\x00evil", port)
		return r
	case 12:
		// doubled terminator: decodes to name+NUL, a different string
		return hostReq{kind: "double-nul", name: codec.UTF16LE(n + "\x00\x00"), declared: -1, port: port, key: joinHostPort(n+"\x00", port)}
	case 13:
		// no terminator at all: the same name
		return hostReq{kind: "no-terminator", name: codec.UTF16LE(n), declared: -1, port: port, key: joinHostPort(n, port)}
	case 14:
		if otherUserEntry != "" {
			on, op := splitHostPort(otherUserEntry)
			return mk("other-user-entry", on, op)
		}
		return mk("case", strings.ToUpper(n), port)
	case 15:
		return mk("bracketed", "["+n+"]", port)
	case 16:
		return mk("surrogate", n+"\U0001D11E", port)
	case 17:
		b := codec.UTF16LE(n + "\x00")
		return hostReq{kind: "odd-length", name: b[:len(b)-1], declared: -1, port: port, key: ""}
	case 18:
		b := codec.UTF16LE(n + "\x00")
		return hostReq{kind: "over-long-length", name: b, declared: len(b) + 2*(1+c.T.Choose(8)), port: port, key: ""}
	default:
		return mk("name-with-port", fmt.Sprintf("%s:%d", n, port), port)
	}
}

func runC03(c *Ctx) {
	tw := PlanTunnels(c, TunOpts{N: 1, Transports: []string{"ws", "legacy"}})
	p := tw.Plans[0]
	mode := []string{"roundrobin", "unsigned", "any", "signed"}[c.T.Weighted(4, 3, 3, 1)]
	tw.Cfg.HostSelection = mode
	if mode == "signed" {
		tw.Cfg.QuerySigningKey = env.Key32
	}
	// user names: ordinary, empty, with domain
	// (also names made of characters that mean something to pattern matchers)
	p.User = []string{"user0", "user0", "user0", "", "bob@corp.test", "*", "user?", "[a-z]*", "user0|user1", ".*", "user$1", "svc$$", "pc${0}$"}[c.T.Choose(13)]
	placeholder := c.T.Bool(1, 2)
	ipv6 := c.T.Bool(1, 4)
	var hosts []string
	entry := p.AllowedHost
	other := ""
	if placeholder {
		hosts = append(hosts, "{{ preferred_username }}.desk.test:3389")
		entry = p.User + ".desk.test:3389"
		other = "user1.desk.test:3389"
	}
	if ipv6 {
		hosts = append(hosts, "[fd00::10]:3389")
		if c.T.Bool(1, 2) {
			entry = "[fd00::10]:3389"
		}
	}
	tw.Cfg.Hosts = append(hosts, p.AllowedHost, "second.test:3390")
	// whether tokens are tied to the client address is independent of which host a token names
	verifyIP := "default"
	switch c.T.Weighted(4, 1, 1) {
	case 1:
		tw.Cfg.VerifyClientIP, verifyIP = env.Bool(false), "off"
	case 2:
		tw.Cfg.VerifyClientIP, verifyIP = env.Bool(true), "on"
	}
	if !BootTun(c, tw, false) {
		return
	}
	subst := map[string]bool{}
	for _, h := range tw.Cfg.Hosts {
		subst[strings.Replace(h, "{{ preferred_username }}", p.User, 1)] = true
	}
	// history: another user may have used the gateway before (state such as caches must not
	// carry one user's authorisation over to the next)
	warm := ""
	if mode != "signed" && c.T.Bool(1, 2) {
		wu := "user1"
		wh := p.AllowedHost
		if placeholder && mode != "any" {
			wh = other
		} else if c.T.Bool(1, 2) {
			wh = "second.test:3390"
		}
		if c.W.Host[wh] == nil {
			c.W.AddHost(wh, [][]byte{[]byte("hello from " + wh)})
		}
		wfrom := "10.1.9.9:41999"
		sameUser := p.User != "" && c.T.Bool(1, 3)
		if sameUser {
			// the same user, signed in once (one access token), first connects to another of
			// the hosts they may use: each tunnel is bound to the host of its own token
			wu, wfrom = p.User, p.From
			wh = []string{"second.test:3390", p.AllowedHost}[c.T.Choose(2)]
			if c.W.Host[wh] == nil {
				c.W.AddHost(wh, [][]byte{[]byte("hello from " + wh)})
			}
		}
		wp := &TunPlan{Name: "w0", Transport: []string{"ws", "legacy"}[c.T.Choose(2)], From: wfrom, ConnID: fmt.Sprintf("{WARM-%d}", c.Res.Seed), User: wu, AllowedHost: wh, CloseAfter: -1}
		wp.AccessToken = c.W.IdP.IssueAccessToken(wu)
		if sameUser {
			wp.AccessToken = p.AccessToken
		}
		wp.Pkts = []CPkt{PHandshake(tw.MC.ServerCaps, 1, 0), PTunnelCreate(ValidCookie(c, tw, wp, wh), true), PTunnelAuth("w"), PChannel(wh, HostAllowed), PData([]byte("warm")), PClose()}
		wt := StartTunnels(c, []*TunPlan{wp})
		RunTunnels(c, wt, 2000)
		c.S.Draining = false
		wt[0].Hosts = []*env.Host{c.W.Host[wh]}
		CheckTunnel(c, wt[0], tw.MC, "C03")
		if c.S.Viol != nil {
			return
		}
		wt[0].Client.CloseAll(false)
		c.S.Run(nil, 200, time.Second)
		warm = fmt.Sprintf(" after %s opened %q;", wu, wh)
	}
	dialsBefore := len(c.S.DialLog)
	connsBefore := map[string]int{}
	for a, h := range c.W.Host {
		connsBefore[a] = len(h.Conns)
	}
	req := nearMiss(c, entry, other)
	// the token host: what the gateway embedded at issuance; either the configured entry or
	// (as a token from 'any' mode would) exactly what is now requested
	tokenHost := entry
	if req.key != "" && c.T.Bool(1, 2) {
		tokenHost = req.key
	}
	authorised := req.key != "" && req.key == tokenHost
	switch mode {
	case "any":
	case "signed":
		authorised = false
	default:
		authorised = authorised && p.User != "" && subst[req.key]
	}
	if req.kind == "surrogate" {
		// the gateway decodes UTF-16 unit by unit; only the authorised-set clause is
		// observable for such names, and no configured entry contains one
		authorised = false
	}
	// listeners for allowed and forbidden names, so that a wrongful dial is seen to succeed
	// fault: the authorised host itself is down (connection refused); nothing else may be
	// dialed in its place
	down := authorised && c.W.Host[req.key] == nil && c.T.Bool(1, 4)
	var shs []string
	for h := range subst {
		shs = append(shs, h)
	}
	sort.Strings(shs)
	for _, h := range shs {
		if c.W.Host[h] == nil && !(down && h == req.key) {
			c.W.AddHost(h, [][]byte{[]byte("hello from " + h)})
		}
	}
	for _, h := range []string{req.key, entry, other, tokenHost} {
		if h != "" && c.W.Host[h] == nil && !(down && h == req.key) {
			c.W.AddHost(h, [][]byte{[]byte("hello from " + h)})
		}
	}
	verdict := HostDenied
	if authorised {
		verdict = HostAllowed
	}
	if down {
		if p.AllowedHost == req.key {
			p.AllowedHost = "" // no stub host for it either
		}
		verdict = HostUnreachable
		warm += " requested host is down;"
		c.S.Count("fault.host.down")
	}
	cc := CPkt{Kind: KChannelCreate, HostKey: req.key, Verdict: verdict, Bytes: codec.ChannelCreate(req.name, req.port, req.declared)}
	if req.kind == "exact" && c.T.Bool(1, 4) {
		// the request also lists alternate names of the same resource (MS-TSGU allows up to three);
		// only the first name is the one asked for
		hn, _ := splitHostPort(req.key)
		cc.Bytes, cc.Alts = codec.ChannelCreateAlts(strings.Trim(hn, "[]"), []string{"alias-of-it.test", "10.99.3.4", "second.test"}[:1+c.T.Choose(3)], req.port), true
		warm += " request lists alternate names;"
	}
	payload := c.T.Bytes(1+c.T.Choose(100), 0x33)
	p.Pkts = []CPkt{
		PHandshake(tw.MC.ServerCaps, 1, 0),
		PTunnelCreate(ValidCookie(c, tw, p, tokenHost), true),
		PTunnelAuth("n"),
		cc,
		PData(payload),
	}
	// concurrency: another user opens a channel to their own entry while this tunnel is being
	// set up (per-user substitution must not leak between requests that overlap)
	plans := tw.Plans
	var cp *TunPlan
	if placeholder && other != "" && (mode == "roundrobin" || mode == "unsigned") && c.T.Bool(1, 2) {
		cp = &TunPlan{Name: "c0", Transport: []string{"ws", "legacy"}[c.T.Choose(2)], From: "10.1.9.8:41998", ConnID: fmt.Sprintf("{COMP-%d}", c.Res.Seed), User: "user1", AllowedHost: other, CloseAfter: -1}
		cp.AccessToken = c.W.IdP.IssueAccessToken("user1")
		cp.Pkts = []CPkt{PHandshake(tw.MC.ServerCaps, 1, 0), PTunnelCreate(ValidCookie(c, tw, cp, other), true), PTunnelAuth("c"), PChannel(other, HostAllowed), PData([]byte("companion"))}
		plans = append(plans, cp)
		warm += " while user1 opens " + other + ";"
		c.S.Count("probe.concurrent_other_user")
	}
	tw.Tuns = StartTunnels(c, plans)
	RunTunnels(c, tw.Tuns, 3000)
	t := tw.Tuns[0]
	for _, x := range tw.Tuns {
		if x.Client.Failed != "" || x.Err != "" {
			c.Infra("transport setup failed: %s %s", x.Client.Failed, x.Err)
			return
		}
	}
	// the dial log of the whole run: every dial must be the authorised request, verbatim
	// (plus the one dial of the concurrent user to their own entry)
	compDials := 0
	for _, d := range c.S.DialLog[dialsBefore:] {
		if cp != nil && d.To == other && compDials == 0 {
			compDials++
			continue
		}
		if !authorised {
			c.S.Fail("C03", "dial-unauthorised-host", "mode=%s user=%q token-host=%q request{%s %q}: refused by policy, yet the gateway dialed %q", mode, p.User, tokenHost, req.kind, req.key, d.To)
			break
		}
		if d.To != req.key {
			c.S.Fail("C03", "dial-other-host", "mode=%s request{%s %q}: the gateway dialed %q", mode, req.kind, req.key, d.To)
			break
		}
	}
	if c.S.Viol == nil {
		// hosts other than the authorised one must have seen nothing
		for addr, h := range c.W.Host {
			extra := 0
			if cp != nil && addr == other {
				extra = 1
			}
			if len(h.Conns) > connsBefore[addr]+extra && !(authorised && addr == req.key) {
				c.S.Fail("C03", "connection-to-unrequested-host", "host %q accepted a connection; authorised=%v request=%q", addr, authorised, req.key)
			}
		}
	}
	if c.S.Viol == nil {
		// belongs() attributes dials by name; attribute the authorised host to this tunnel
		if authorised && !down {
			p.AllowedHost = req.key
			t.Hosts = append(t.Hosts, c.W.Host[req.key])
		}
		v := CheckTunnel(c, t, tw.MC, "C03")
		if c.S.Viol != nil && c.S.Viol.Oracle != "C03" && (c.S.Viol.Sig == "valid-step-refused" || c.S.Viol.Sig == "success-out-of-order") {
			c.S.Viol.Oracle = "C03"
			c.S.Viol.Msg = fmt.Sprintf("mode=%s user=%q token-host=%q request{%s key=%q} authorised-by-model=%v: %s", mode, p.User, tokenHost, req.kind, req.key, authorised, c.S.Viol.Msg)
		}
		if c.S.Viol == nil && authorised {
			c.S.Count("probe.authorised_channel")
			if len(c.S.DialLog)-dialsBefore-compDials != 1 {
				c.S.Fail("C03", "no-dial-for-authorised", "request %q is authorised but %d dials were made", req.key, len(c.S.DialLog)-dialsBefore-compDials)
			}
		}
		if c.S.Viol == nil && !authorised {
			c.S.Count("probe.refused_" + req.kind)
		}
		_ = v
	}
	c.Res.Reach = len(t.Client.Sent) >= 4
	c.Samplef("%s%s verifyclientip=%s mode=%s hosts=%v user=%q token-host=%q request{%s raw=%s declared=%d port=%d key=%q} authorised=%v dials=%d events=%s",
		p.Transport, warm, verifyIP, mode, tw.Cfg.Hosts, p.User, tokenHost, req.kind, short(req.name), req.declared, req.port, req.key, authorised, len(c.S.DialLog), t.Client.Describe())
}
