package scen

import (
	"encoding/base64"
	"fmt"
	"sort"
	"strings"
	"time"

	"simh/codec"
	"simh/env"
	"simh/sim"

	authconfig "github.com/bolkedebruin/rdpgw/cmd/auth/config"
)

func init() {
	Register("c05", runC05)
}

var c05Subsets = [][]string{
	{"openid"}, {"ntlm"}, {"openid", "ntlm"}, {"local"}, {"openid", "local"}, {"local", "ntlm"}, {"openid", "local", "ntlm"},
	{"kerberos"}, {"openid", "kerberos"}, {"kerberos", "local"}, {"openid", "kerberos", "local"},
}

type c05World struct {
	c     *Ctx
	mechs []string
	tls   bool
	node  *env.AuthNode
	n     int
	// connID, when set, is the Rdg-Connection-Id the next requests carry
	connID string
	// cookie, when set, is sent as Cookie header with the next requests
	cookie string
}

func (w *c05World) has(m string) bool {
	for _, x := range w.mechs {
		if x == m {
			return true
		}
	}
	return false
}

// request sends one gateway-endpoint request (ws upgrade or legacy OUT) with the given
// Authorization header values and reports status and challenges.
func (w *c05World) request(method string, auths []string, from string) *env.HTTPResult {
	w.n++
	hdr := [][2]string{{"Rdg-Connection-Id", fmt.Sprintf("{C05-%d}", w.n)}}
	if w.connID != "" {
		hdr[0][1] = w.connID
	}
	for _, a := range auths {
		hdr = append(hdr, [2]string{"Authorization", a})
	}
	if w.cookie != "" {
		hdr = append(hdr, [2]string{"Cookie", w.cookie})
	}
	if method == "RDG_OUT_DATA" && w.n%2 == 0 {
		hdr = append(hdr, [2]string{"Connection", "Upgrade"}, [2]string{"Upgrade", "websocket"}, [2]string{"Sec-WebSocket-Version", "13"}, [2]string{"Sec-WebSocket-Key", "AAAAAAAAAAAAAAAAAAAAAA=="})
	}
	req := &env.HTTPReq{Name: fmt.Sprintf("q%d", w.n), From: from, Method: method, Path: "/remoteDesktopGateway/", Header: hdr}
	if w.tls {
		return w.c.W.DoTLS(req, true)
	}
	return w.headOnly(req)
}

// headOnly sends a request on a scheduler-owned connection and waits for the response head.
func (w *c05World) headOnly(r *env.HTTPReq) *env.HTTPResult {
	c := w.c
	res := &env.HTTPResult{}
	e, err := c.S.Connect(r.Name, r.From, c.W.GW.Addr)
	if err != nil {
		res.Err = err.Error()
		return res
	}
	e.Opaque, e.Peer.Opaque = true, true
	e.OnEOF = func(rst bool) { res.EOF = true }
	e.Send(r.Bytes())
	c.S.Run(func() bool {
		if h, _ := codec.ParseHead(e.Recv); h != nil {
			res.Status, res.Header = h.Status, h.Header
			return true
		}
		return res.EOF
	}, 20000, 30*time.Second)
	c.S.Run(nil, 30, 50*time.Millisecond)
	e.Shut()
	return res
}

// reached: the tunnel handler answered (101 upgrade, legacy 200 accept, or its own 400 for an
// IN channel without OUT channel); the router and the auth middlewares answer 401/404/405/500.
func reached(r *env.HTTPResult) bool { return r.Status == 101 || r.Status == 200 || r.Status == 400 }

func challenges(r *env.HTTPResult) []string {
	if r.Header == nil {
		return nil
	}
	v := append([]string{}, r.Header.Values("Www-Authenticate")...)
	sort.Strings(v)
	return v
}

// runC05: route model of the gateway endpoint per mechanism subset.
func runC05(c *Ctx) {
	w := &c05World{c: c}
	w.mechs = c05Subsets[int(c.Res.Seed)%len(c05Subsets)]
	w.tls = w.has("local")
	cfg := env.BaseConfig()
	// as written in the configuration: any order, and "basic" is an accepted spelling of "local"
	spelled := append([]string{}, w.mechs...)
	for i := len(spelled) - 1; i > 0; i-- {
		j := c.T.Choose(i + 1)
		spelled[i], spelled[j] = spelled[j], spelled[i]
	}
	for i, m := range spelled {
		if m == "local" && c.T.Bool(1, 3) {
			spelled[i] = "basic"
		}
	}
	cfg.Authentication = spelled
	cfg.Hosts = []string{"{{ preferred_username }}.desk.test:3389", "host-a.test:3389"}
	if !w.has("openid") {
		cfg.TokenAuth = env.Bool(false)
	}
	if w.tls {
		cfg.TLS = ""
		cfg.CertFile, cfg.KeyFile = c.W.WriteTLSFiles()
	}
	users := []authconfig.UserConfig{{Username: "alice", Password: "correct horse"}, {Username: "bob", Password: "bobs password"}}
	pam := map[string]string{"alice": "correct horse", "bob": "bobs password", "x": "x52\u0300", "carol": "pa:ss:wo:rd", "dave": ":", "erin": "trailing colon:"}
	if w.has("ntlm") || w.has("local") {
		cfg.AuthSocket = "/sim/auth.sock"
		cfg.AuthTimeout = 3
		w.node = c.W.StartAuthNode("/sim/auth.sock", users, pam)
	}
	if w.has("kerberos") {
		cfg.Keytab = c.W.WriteKeytab("HTTP/gw.test", "CORP.TEST", "service-password")
		cfg.Krb5Conf = c.W.WriteKrb5Conf("CORP.TEST", map[string][]string{"CORP.TEST": {"kdc1.corp.test:88"}})
	}
	c.W.NewIdP()
	g := c.W.Boot(cfg)
	if g.Exited || g.Server == nil {
		c.Infra("gateway did not start: %s", g.ExitLine)
		return
	}
	// expected challenge set for a request without credentials
	var want []string
	if w.has("ntlm") {
		want = append(want, "NTLM", "Negotiate")
	}
	if w.has("local") {
		want = append(want, `Basic realm="restricted", charset="UTF-8"`)
	}
	if w.has("kerberos") {
		want = append(want, "Negotiate")
	}
	sort.Strings(want)
	open := len(w.mechs) == 1 && w.has("openid")
	var log []string
	krbShifted := false
	b64 := base64.StdEncoding.EncodeToString
	basic := func(u, p string) string { return "Basic " + b64([]byte(u+":"+p)) }
	for i := 0; i < 3+c.T.Choose(4) && c.S.Viol == nil; i++ {
		method := []string{"RDG_OUT_DATA", "RDG_OUT_DATA", "RDG_IN_DATA", "GET", "POST"}[c.T.Choose(5)]
		from := fmt.Sprintf("10.6.0.%d:%d", 1+i, 46000+i)
		kind := c.T.Choose(16)
		if w.has("kerberos") && c.T.Bool(1, 3) {
			kind = 100 + c.T.Choose(5)
		}
		var r *env.HTTPResult
		what := ""
		expectReached := false
		fault := ""
		// auth-node faults: refuse, or slower than the gateway's timeout
		if w.node != nil && c.T.Bool(1, 6) {
			if c.T.Bool(1, 2) {
				fault = "auth-node-down"
				w.node.Stop()
			} else {
				fault = "auth-node-slow"
				w.node.SlowBy = 10 * time.Second
			}
			c.S.Count("fault.authnode." + fault)
		}
		krb := func(user, keyPass, service string, expired time.Duration) string {
			// distinct authenticator timestamps: gokrb5's replay cache is a process-wide
			// singleton, so they must differ between the runs of one worker process as well
			if !krbShifted {
				krbShifted = true
				c.S.Advance(time.Duration(c.Res.Seed%9000)*100*time.Millisecond + time.Duration(c.Res.Seed%997)*time.Microsecond)
			}
			c.S.Advance(time.Millisecond)
			h, err := env.NegotiateHeader(env.KrbTicketOpts{User: user, Realm: "CORP.TEST", Service: service, KeyPass: keyPass, ExpiredBy: expired})
			if err != nil {
				c.Infra("forging a Kerberos ticket: %v", err)
			}
			return h
		}
		switch kind {
		case 100:
			what = "kerberos-valid-ticket(alice)"
			r = w.request(method, []string{krb("alice", "service-password", "HTTP/gw.test", 0)}, from)
			expectReached = true
		case 101:
			what = "kerberos-ticket-under-another-key"
			r = w.request(method, []string{krb("alice", "not-the-service-password", "HTTP/gw.test", 0)}, from)
		case 102:
			what = "kerberos-expired-ticket"
			r = w.request(method, []string{krb("alice", "service-password", "HTTP/gw.test", 30*time.Minute)}, from)
		case 103:
			what = "kerberos-ticket-for-another-service"
			r = w.request(method, []string{krb("alice", "service-password", "HTTP/other.test", 0)}, from)
		case 104:
			// a complete tunnel as the Kerberos principal: it runs as that user
			if w.tls || w.has("openid") {
				what = "kerberos-valid-ticket(bob)"
				r = w.request(method, []string{krb("bob", "service-password", "HTTP/gw.test", 0)}, from)
				expectReached = true
				break
			}
			user := []string{"alice", "bob"}[c.T.Choose(2)]
			target, verdict := user+".desk.test:3389", HostAllowed
			if c.T.Bool(1, 3) {
				target, verdict = map[string]string{"alice": "bob", "bob": "alice"}[user]+".desk.test:3389", HostDenied
			}
			what = fmt.Sprintf("kerberos-tunnel(%s -> %s)", user, target)
			w.n++
			p := &TunPlan{Name: fmt.Sprintf("k%d", w.n), Transport: []string{"ws", "legacy"}[c.T.Choose(2)], From: from, ConnID: fmt.Sprintf("{C05K-%d}", w.n), CloseAfter: -1,
				AllowedHost: user + ".desk.test:3389", DeniedHost: map[string]string{"alice": "bob", "bob": "alice"}[user] + ".desk.test:3389"}
			p.Pkts = []CPkt{PHandshake(0, 1, 0), PTunnelCreateNoCookie(), PTunnelAuth("n"), PChannel(target, verdict), PData([]byte("hello"))}
			tuns := StartTunnels(c, []*TunPlan{p})
			t := tuns[0]
			t.Client.AuthFn = func(role string) string { return krb(user, "service-password", "HTTP/gw.test", 0) }
			c.S.Run(func() bool { return t.SentAll() || t.Client.Failed != "" }, 6000, 30*time.Second)
			c.S.Run(nil, 400, 3*time.Second)
			log = append(log, fmt.Sprintf("%s->reached=%v", what, t.Client.Ready))
			if !t.Client.Ready {
				c.S.Fail("C05", "good-credentials-refused", "auth=%v %s: a valid Kerberos ticket did not reach the handler: %s %s", w.mechs, what, t.Client.Failed, t.Client.Describe())
			} else {
				t.Hosts = nil
				for _, hn := range []string{p.AllowedHost, p.DeniedHost} {
					if c.W.Host[hn] != nil {
						t.Hosts = append(t.Hosts, c.W.Host[hn])
					}
				}
				CheckTunnel(c, t, ModelCfg{TokenAuth: false, ServerCaps: 0}, "C05")
				if v := c.S.Viol; v != nil {
					v.Msg = fmt.Sprintf("auth=%v %s: the tunnel does not run as the Kerberos principal: %s/%s %s", w.mechs, what, v.Oracle, v.Sig, v.Msg)
					v.Sig = "tunnel-user:" + v.Sig
					v.Oracle = "C05"
				}
				c.S.Count("probe.kerberos_tunnel")
			}
			t.Client.CloseAll(false)
			c.S.Run(nil, 100, time.Second)
			r = nil
		case 0, 1:
			what = "no-authorization"
			if c.T.Bool(1, 3) {
				what = "empty-authorization"
				r = w.request(method, []string{""}, from)
			} else {
				r = w.request(method, nil, from)
			}
			if open {
				expectReached = method == "RDG_OUT_DATA" || method == "RDG_IN_DATA"
			} else if c.S.Viol == nil {
				got := challenges(r)
				if r.Status != 401 || strings.Join(got, "|") != strings.Join(want, "|") {
					c.S.Fail("C05", "challenge-set", "auth=%v %s %s: expected 401 with one challenge per enabled scheme %q, got %d %q", w.mechs, method, what, want, r.Status, got)
				}
			}
		case 2:
			a := []string{"NTLM", "Negotiate", "Basic", "NTL", "ntlm " + b64(codec.NTLMNegotiate()), "basic " + b64([]byte("alice:correct horse")), "Bearer abc", "Digest x"}[c.T.Choose(8)]
			what = fmt.Sprintf("malformed-scheme %q", a)
			r = w.request(method, []string{a}, from)
			expectReached = open && (method == "RDG_OUT_DATA" || method == "RDG_IN_DATA")
		case 3:
			what = "basic-correct"
			if c.T.Bool(1, 3) {
				// passwords may contain colons (only the first colon of user:password separates)
				cu := []string{"carol", "dave", "erin"}[c.T.Choose(3)]
				what = "basic-correct(" + cu + ", password with colons)"
				r = w.request(method, []string{basic(cu, pam[cu])}, from)
				expectReached = (open || w.has("local") && fault == "") && (method == "RDG_OUT_DATA" || method == "RDG_IN_DATA")
				break
			}
			r = w.request(method, []string{basic("alice", "correct horse")}, from)
			expectReached = (open || w.has("local") && fault == "") && (method == "RDG_OUT_DATA" || method == "RDG_IN_DATA")
			if w.has("local") && !w.has("ntlm") && fault == "" && c.S.Viol == nil && reached(r) {
				ok := false
				for _, cl := range w.node.Calls {
					if cl.Kind == "pam" && cl.User == "alice" && cl.Pass == "correct horse" && cl.OK {
						ok = true
					}
				}
				if !ok {
					c.S.Fail("C05", "reached-without-confirmation", "auth=%v basic credentials reached the handler but the authentication service has no confirming call", w.mechs)
				}
			}
		case 4:
			// (names decorated with a domain are different names: the service is asked about
			// the name as given, and confirms nothing for them)
			u, p := []string{"alice", "alice", "mallory", "", "alice", "alice\\bob", "bob@alice", "ALICE\\bob@corp.test"}[c.T.Choose(8)], []string{"wrong", "", "x", "correct horse", "correct horse ", "bobs password", "bobs password"}[c.T.Choose(7)]
			if u == "alice" && p == "correct horse" {
				p = "nope"
			}
			what = fmt.Sprintf("basic-wrong(%q,%q)", u, p)
			r = w.request(method, []string{basic(u, p)}, from)
			expectReached = open && (method == "RDG_OUT_DATA" || method == "RDG_IN_DATA")
		case 5:
			what = "ntlm-type3-without-negotiate"
			nt, lm, sbk := codec.NTLMv2Response("alice", "correct horse", "", []byte("12345678"), []byte("abcdefgh"), []byte{0, 0, 0, 0}, time.Now())
			r = w.request(method, []string{"NTLM " + b64(codec.NTLMAuthenticate("alice", "", "WS", nt, lm, sbk))}, from)
			expectReached = open && (method == "RDG_OUT_DATA" || method == "RDG_IN_DATA")
		case 6:
			what = "two-authorization-headers"
			r = w.request(method, []string{basic("alice", "wrong"), "NTLM " + b64(codec.NTLMNegotiate())}, from)
			expectReached = open && (method == "RDG_OUT_DATA" || method == "RDG_IN_DATA")
		case 7:
			what = "negotiate-garbage-token"
			r = w.request(method, []string{"Negotiate " + b64(c.T.Bytes(40+c.T.Choose(200), 5))}, from)
			expectReached = open && (method == "RDG_OUT_DATA" || method == "RDG_IN_DATA")
		case 9:
			// two Basic requests overlap at the authentication service (which takes a second to
			// answer): each is decided by the confirmation of its own credentials
			if !w.tls || !w.has("local") {
				what = "basic-correct"
				r = w.request(method, []string{basic("bob", "bobs password")}, from)
				expectReached = (open || w.has("local") && fault == "") && (method == "RDG_OUT_DATA" || method == "RDG_IN_DATA")
				break
			}
			type cred struct {
				u, p string
				ok   bool
			}
			pairs := [][2]cred{
				{{"alice", "correct horse", true}, {"alice", "wrong", false}},
				{{"alice", "wrong", false}, {"alice", "correct horse", true}},
				{{"alice", "correct horse", true}, {"bob", "wrong", false}},
				{{"bob", "bobs password", true}, {"alice", "correct horse", true}},
				{{"alice", "wrong", false}, {"alice", "also wrong", false}},
				// the same characters, split elsewhere between name and password
				{{"alice", "correct horse", true}, {"alicec", "orrect horse", false}},
				{{"alice", "correct horse", true}, {"alic", "ecorrect horse", false}},
			}[c.T.Choose(7)]
			what = fmt.Sprintf("concurrent-basic(%s:%v, %s:%v)", pairs[0].u, pairs[0].ok, pairs[1].u, pairs[1].ok)
			slow := fault == ""
			if slow {
				w.node.SlowBy = time.Second
			}
			var ps []*env.PendingTLS
			for k, cr := range pairs {
				w.n++
				req := &env.HTTPReq{Name: fmt.Sprintf("q%d", w.n), From: fmt.Sprintf("10.6.3.%d:%d", 1+i, 48000+k), Method: "RDG_OUT_DATA", Path: "/remoteDesktopGateway/",
					Header: [][2]string{{"Rdg-Connection-Id", fmt.Sprintf("{C05C-%d}", w.n)}, {"Authorization", basic(cr.u, cr.p)}}}
				ps = append(ps, c.W.StartTLS(req, true))
				// the first request gets to the authentication service before the second starts
				c.S.Run(nil, 3000, 300*time.Millisecond)
			}
			c.S.Run(func() bool { return ps[0].Done && ps[1].Done }, 40000, 60*time.Second)
			if slow {
				w.node.SlowBy = 0
			}
			c.S.Count("probe.concurrent_basic")
			for k, cr := range pairs {
				res := ps[k].Res
				log = append(log, fmt.Sprintf("%s[%d]%s->%d", what, k, fault, res.Status))
				if reached(res) && !(cr.ok && fault == "") {
					c.S.Fail("C05", "reached-without-credentials", "auth=%v %s %s: request %d (%s with a password the service does not confirm) got %d: the tunnel handler was reached", w.mechs, what, fault, k, cr.u, res.Status)
				} else if !reached(res) && cr.ok && fault == "" {
					c.S.Fail("C05", "good-credentials-refused", "auth=%v %s: request %d (%s, correct password) got %d err=%q", w.mechs, what, k, cr.u, res.Status, res.Err)
				}
			}
			r = nil
		case 13:
			// the two requests of a legacy connection authenticate separately: a correct
			// RDG_OUT_DATA request does not vouch for the RDG_IN_DATA request with its id
			if !w.tls || !w.has("local") {
				what = "basic-wrong(\"alice\",\"wrong\")"
				r = w.request(method, []string{basic("alice", "wrong")}, from)
				expectReached = open && (method == "RDG_OUT_DATA" || method == "RDG_IN_DATA")
				break
			}
			w.connID = fmt.Sprintf("{C05L-%d}", w.n+1)
			r1 := w.request("RDG_OUT_DATA", []string{basic("alice", "correct horse")}, from)
			what = "legacy-pair(OUT with the right password, IN with " + []string{"a wrong password", "another user's right password", "no credentials"}[c.T.Choose(3)] + ")"
			var hdrs []string
			switch {
			case strings.Contains(what, "a wrong"):
				hdrs = []string{basic("alice", "wrong")}
			case strings.Contains(what, "another"):
				hdrs = []string{basic("mallory", "correct horse")}
			}
			r = w.request("RDG_IN_DATA", hdrs, from)
			w.connID = ""
			method = "RDG_IN_DATA"
			expectReached = false
			if fault == "" && !reached(r1) && c.S.Viol == nil {
				c.S.Fail("C05", "good-credentials-refused", "auth=%v %s: the RDG_OUT_DATA request with correct credentials got %d", w.mechs, what, r1.Status)
			}
		case 14:
			// a client that hangs up (or half-closes) right after its request, while the
			// authentication service is still being asked (it answers after a second or two):
			// nobody was confirmed, so the handler must not be reached
			if w.tls || w.node == nil || fault != "" {
				what = "basic-wrong(\"alice\",\"wrong\")"
				r = w.request(method, []string{basic("alice", "wrong")}, from)
				expectReached = open && (method == "RDG_OUT_DATA" || method == "RDG_IN_DATA")
				break
			}
			{
				auth := "NTLM " + b64(codec.NTLMNegotiate())
				if !w.has("ntlm") || c.T.Bool(1, 2) {
					auth = basic("alice", []string{"wrong", "correct horse"}[c.T.Choose(2)])
				}
				half := c.T.Bool(1, 2)
				what = fmt.Sprintf("client-%s-while-the-provider-is-asked(%.12s...)", map[bool]string{true: "half-closes", false: "closes"}[half], auth)
				w.node.SlowBy = time.Duration(1+c.T.Choose(3)) * time.Second
				w.n++
				e, err := c.S.Connect(fmt.Sprintf("gone%d", w.n), from, c.W.GW.Addr)
				if err != nil {
					c.Infra("connect: %v", err)
					return
				}
				e.Opaque, e.Peer.Opaque = true, true
				e.Send([]byte("RDG_OUT_DATA /remoteDesktopGateway/ HTTP/1.1\r\nHost: gw.test\r\nRdg-Connection-Id: " + fmt.Sprintf("{C05G-%d}", w.n) + "\r\nAuthorization: " + auth + "\r\n\r\n"))
				c.S.Run(func() bool { return e.Peer.InFlight() == 0 }, 2000, time.Second)
				if half {
					e.ShutWrite()
				} else {
					e.Shut()
				}
				c.S.Count("fault.client.gone_while_provider_is_asked")
				c.S.Run(func() bool { h, _ := codec.ParseHead(e.Recv); return h != nil }, 6000, 8*time.Second)
				w.node.SlowBy = 0
				st := 0
				if h, _ := codec.ParseHead(e.Recv); h != nil {
					st = h.Status
				}
				log = append(log, fmt.Sprintf("%s->%d", what, st))
				confirmed := strings.HasPrefix(auth, "Basic") && strings.Contains(what, "Y29ycmVjdCBob3JzZQ") && w.has("local")
				if (st == 200 || st == 101) && !open && !confirmed && !(half && strings.HasPrefix(auth, "Basic") && w.has("local") && strings.HasSuffix(auth, b64([]byte("alice:correct horse")))) {
					c.S.Fail("C05", "reached-without-credentials", "auth=%v %s: the client was gone before the authentication service answered, nobody was confirmed, yet the gateway handler was reached (status %d)", w.mechs, what, st)
				}
				if !half {
					e.Shut()
				}
				r = nil
			}
		case 15:
			// somebody who signed in at the web front end (OpenID) a moment ago presents the
			// browser's session cookie next to Basic credentials: the cookie confirms nothing for
			// the gateway endpoint, the password decides
			if !w.has("openid") || !w.has("local") || fault != "" {
				what = "basic-wrong(\"bob\",\"wrong\")"
				r = w.request(method, []string{basic("bob", "wrong")}, from)
				expectReached = open && (method == "RDG_OUT_DATA" || method == "RDG_IN_DATA")
				break
			}
			{
				w.n++
				b := c.W.NewBrowser(fmt.Sprintf("web%d", w.n), fmt.Sprintf("%s:%d", clientIP(from), 52000+i))
				b.TLS = w.tls
				if ok, cb := b.Login("/connect", &env.IdPUser{Sub: "alice", Claims: map[string]any{"preferred_username": "alice"}}); !ok || b.Jar["RDPGWSESSION"] == "" {
					c.Infra("C05: browser login for the session-cookie request failed: %d %v", cb.Status, b.Log)
					return
				}
				w.cookie = "RDPGWSESSION=" + b.Jar["RDPGWSESSION"]
				v := c.T.Choose(4)
				switch v {
				case 0:
					what = "signed-in-session-cookie+basic-wrong-password(alice)"
					r = w.request(method, []string{basic("alice", "wrong")}, from)
				case 1:
					what = "signed-in-session-cookie+basic-empty-password(alice)"
					r = w.request(method, []string{basic("alice", "")}, from)
				case 2:
					what = "signed-in-session-cookie(alice)+basic-wrong-password(bob)"
					r = w.request(method, []string{basic("bob", "correct horse")}, from)
				default:
					what = "basic-correct(alice)+signed-in-session-cookie"
					r = w.request(method, []string{basic("alice", "correct horse")}, from)
					expectReached = method == "RDG_OUT_DATA" || method == "RDG_IN_DATA"
				}
				w.cookie = ""
				c.S.Count("probe.web_session_cookie_next_to_basic_credentials")
			}
		case 8:
			// valid Basic credentials whose base64 text contains the letters NTLM
			what = "basic-correct-containing-NTLM"
			r = w.request(method, []string{basic("x", "x52\u0300")}, from)
			expectReached = (open || w.has("local") && fault == "") && (method == "RDG_OUT_DATA" || method == "RDG_IN_DATA")
		default:
			// the full NTLM exchange on a tunnel, then the tunnel user is observed through a
			// host entry that only the confirmed name can reach
			if w.tls || !w.has("ntlm") {
				what = "ntlm-negotiate-on-disabled-scheme"
				r = w.request(method, []string{"NTLM " + b64(codec.NTLMNegotiate())}, from)
				expectReached = open && (method == "RDG_OUT_DATA" || method == "RDG_IN_DATA")
				break
			}
			variant := c.T.Choose(6)
			if variant == 4 {
				// negotiate on one connection, authenticate on ANOTHER connection from the same
				// address: the exchange is per connection, so this must not reach the handler
				what = "ntlm-type3-on-another-connection"
				ip := fmt.Sprintf("10.6.1.%d", 1+i)
				w.n++
				e1, err := c.S.Connect(fmt.Sprintf("x%da", w.n), ip+":47001", c.W.GW.Addr)
				if err != nil {
					c.Infra("connect: %v", err)
					return
				}
				e1.Opaque, e1.Peer.Opaque = true, true
				// (the second connection may quote the first one's connection id, as the IN
				// channel of a legacy pair does)
				sameID := c.T.Bool(1, 2)
				xid := fmt.Sprintf("{C05X-%d}", w.n)
				mk := func(auth string) []byte {
					return []byte("RDG_OUT_DATA /remoteDesktopGateway/ HTTP/1.1\r\nHost: gw.test\r\nRdg-Connection-Id: " + xid + "\r\nAuthorization: NTLM " + auth + "\r\n\r\n")
				}
				e1.Send(mk(b64(codec.NTLMNegotiate())))
				c.S.Run(func() bool { h, _ := codec.ParseHead(e1.Recv); return h != nil || e1.EOFSeen }, 6000, 20*time.Second)
				var ch *codec.NTLMChallenge
				if h, _ := codec.ParseHead(e1.Recv); h != nil {
					for _, v := range h.Header.Values("Www-Authenticate") {
						if strings.HasPrefix(v, "NTLM ") {
							if raw, err := base64.StdEncoding.DecodeString(v[5:]); err == nil {
								ch, _ = codec.ParseNTLMChallenge(raw)
							}
						}
					}
				}
				if ch == nil {
					if fault == "" {
						c.S.Fail("C05", "good-credentials-refused", "auth=%v: an NTLM negotiate got no challenge", w.mechs)
					}
				} else {
					nt, lm, sbk := codec.NTLMv2Response("alice", "correct horse", "", ch.ServerChallenge, []byte("clntchal"), ch.TargetInfo, time.Now())
					flood := c.T.Bool(1, 12)
					if flood {
						// many other clients start exchanges they never finish
						what = "ntlm-exchange-while-1100-others-are-parked"
						for k := 0; k < 1100 && c.S.Viol == nil; k++ {
							w.request("RDG_OUT_DATA", []string{"NTLM " + b64(codec.NTLMNegotiate())}, fmt.Sprintf("10.7.%d.%d:%d", k/250, 1+k%250, 20000+k))
						}
						c.S.Count("probe.ntlm_flood")
						if fault == "" && c.S.Viol == nil {
							// a newcomer with correct credentials, while the others are still parked
							e2, err := c.S.Connect(fmt.Sprintf("x%db", w.n), "10.6.9.9:47009", c.W.GW.Addr)
							if err != nil {
								c.Infra("connect: %v", err)
								return
							}
							e2.Opaque, e2.Peer.Opaque = true, true
							xid0 := xid
							xid = fmt.Sprintf("{C05Y-%d}", w.n)
							e2.Send(mk(b64(codec.NTLMNegotiate())))
							c.S.Run(func() bool { h, _ := codec.ParseHead(e2.Recv); return h != nil || e2.EOFSeen }, 6000, 20*time.Second)
							var ch2 *codec.NTLMChallenge
							st1 := 0
							if h, _ := codec.ParseHead(e2.Recv); h != nil {
								st1 = h.Status
								for _, v := range h.Header.Values("Www-Authenticate") {
									if strings.HasPrefix(v, "NTLM ") {
										if raw, err := base64.StdEncoding.DecodeString(v[5:]); err == nil {
											ch2, _ = codec.ParseNTLMChallenge(raw)
										}
									}
								}
							}
							st2 := 0
							if ch2 != nil {
								nt2, lm2, sbk2 := codec.NTLMv2Response("alice", "correct horse", "", ch2.ServerChallenge, []byte("clntcha2"), ch2.TargetInfo, time.Now())
								e2.Recv = nil
								e2.Send(mk(b64(codec.NTLMAuthenticate("alice", "", "WS", nt2, lm2, sbk2))))
								c.S.Run(func() bool { h, _ := codec.ParseHead(e2.Recv); return h != nil || e2.EOFSeen }, 6000, 20*time.Second)
								if h, _ := codec.ParseHead(e2.Recv); h != nil {
									st2 = h.Status
								}
							}
							log = append(log, fmt.Sprintf("newcomer-after-the-flood->%d,%d", st1, st2))
							if st2 != 101 && st2 != 200 {
								c.S.Fail("C05", "good-credentials-refused", "auth=%v: while 1100 unfinished NTLM exchanges of other clients are parked, a new client with correct credentials gets %d to its negotiate and %d to its authenticate message", w.mechs, st1, st2)
							}
							e2.Shut()
							xid = xid0
						}
						// then the first client answers its challenge on its own connection
						e1.Recv = nil
						e1.Send(mk(b64(codec.NTLMAuthenticate("alice", "", "WS", nt, lm, sbk))))
						c.S.Run(func() bool { h, _ := codec.ParseHead(e1.Recv); return h != nil || e1.EOFSeen }, 6000, 20*time.Second)
						st := 0
						if h, _ := codec.ParseHead(e1.Recv); h != nil {
							st = h.Status
						}
						log = append(log, fmt.Sprintf("%s%s->%d", what, fault, st))
						if fault == "" && st != 101 && st != 200 {
							c.S.Fail("C05", "good-credentials-refused", "auth=%v %s: the client answered the challenge it was given, on the same connection, within seconds, and got %d", w.mechs, what, st)
						}
						e1.Shut()
						r = nil
						break
					}
					if sameID {
						w.connID = xid
						what += "(quoting its connection id)"
					}
					r = w.request("RDG_OUT_DATA", []string{"NTLM " + b64(codec.NTLMAuthenticate("alice", "", "WS", nt, lm, sbk))}, ip+":47002")
					w.connID = ""
					method = "RDG_OUT_DATA"
					expectReached = false
				}
				e1.Shut()
				break
			}
			if variant == 5 {
				// two clients behind one address run the exchange at the same time
				what = "two-ntlm-clients-behind-one-address"
				var plans []*TunPlan
				for k := 0; k < 2; k++ {
					w.n++
					p := &TunPlan{Name: fmt.Sprintf("n%d", w.n), Transport: []string{"ws", "legacy"}[c.T.Choose(2)], From: fmt.Sprintf("10.6.2.%d:%d", 1+i, 47100+k), ConnID: fmt.Sprintf("{C05P-%d}", w.n), CloseAfter: -1,
						NTLMUser: []string{"alice", "bob"}[k], NTLMPass: []string{"correct horse", "bobs password"}[k]}
					if w.has("openid") {
						p.Pkts = []CPkt{PHandshake(ServerCapsOf(true, false), 1, 0)}
					} else {
						p.Pkts = []CPkt{PHandshake(0, 1, 0), PTunnelCreateNoCookie()}
					}
					plans = append(plans, p)
				}
				tuns := StartTunnels(c, plans)
				c.S.Run(func() bool {
					return (tuns[0].SentAll() || tuns[0].Client.Failed != "") && (tuns[1].SentAll() || tuns[1].Client.Failed != "")
				}, 8000, 30*time.Second)
				c.S.Run(nil, 400, 3*time.Second)
				for k, t := range tuns {
					log = append(log, fmt.Sprintf("%s[%d]%s->reached=%v", what, k, fault, t.Client.Ready))
					if !t.Client.Ready && fault == "" {
						c.S.Fail("C05", "good-credentials-refused", "auth=%v %s: client %d (%s) with valid credentials did not reach the handler while another client of the same address was authenticating: %s %s", w.mechs, what, k, t.Plan.NTLMUser, t.Client.Failed, t.Client.Describe())
					}
					t.Client.CloseAll(false)
				}
				c.S.Run(nil, 100, time.Second)
				r = nil
				break
			}
			user, pass := "alice", "correct horse"
			switch variant {
			case 1:
				pass = "wrong password"
			case 2:
				user = "mallory"
			}
			what = fmt.Sprintf("ntlm-exchange(%s,%v)", user, variant)
			w.n++
			p := &TunPlan{Name: fmt.Sprintf("n%d", w.n), Transport: []string{"ws", "legacy"}[c.T.Choose(2)], From: from, ConnID: fmt.Sprintf("{C05N-%d}", w.n), CloseAfter: -1,
				AllowedHost: "alice.desk.test:3389", DeniedHost: "bob.desk.test:3389"}
			target := p.AllowedHost
			verdict := HostAllowed
			if variant == 3 {
				target, verdict = p.DeniedHost, HostDenied // another user's substituted entry
			}
			if w.has("openid") {
				// token auth is on in this configuration: the cookie is a second gate (C02); the
				// HTTP-level gate is what is observed here
				p.Pkts = []CPkt{PHandshake(ServerCapsOf(true, false), 1, 0)}
			} else {
				p.Pkts = []CPkt{PHandshake(0, 1, 0), PTunnelCreateNoCookie(), PTunnelAuth("n"), PChannel(target, verdict), PData([]byte("hello"))}
			}
			tuns := StartTunnels(c, []*TunPlan{p})
			t := tuns[0]
			t.Client.NTLMUser, t.Client.NTLMPass = user, pass
			c.S.Run(func() bool { return t.SentAll() || t.Client.Failed != "" }, 6000, 30*time.Second)
			c.S.Run(nil, 400, 3*time.Second)
			got := t.Client.Ready
			should := variant != 1 && variant != 2 && fault == ""
			log = append(log, fmt.Sprintf("%s%s->reached=%v", what, fault, got))
			if got && !should {
				c.S.Fail("C05", "reached-with-bad-credentials", "auth=%v %s %s: the tunnel handler was reached: %s", w.mechs, what, fault, t.Client.Describe())
			} else if !got && should {
				c.S.Fail("C05", "good-credentials-refused", "auth=%v %s: valid NTLM credentials did not reach the handler: %s %s", w.mechs, what, t.Client.Failed, t.Client.Describe())
			} else if got && !w.has("openid") {
				// confirmed by the authentication service, and the tunnel runs as that user
				ok := false
				for _, cl := range w.node.Calls {
					if cl.Kind == "ntlm" && cl.OK && cl.Name == user {
						ok = true
					}
				}
				if !ok {
					c.S.Fail("C05", "reached-without-confirmation", "auth=%v %s reached the handler but the authentication service never confirmed %q", w.mechs, what, user)
				}
				mc := ModelCfg{TokenAuth: false, ServerCaps: 0}
				t.Hosts = nil
				for _, hn := range []string{p.AllowedHost, p.DeniedHost} {
					if c.W.Host[hn] != nil {
						t.Hosts = append(t.Hosts, c.W.Host[hn])
					}
				}
				CheckTunnel(c, t, mc, "C05")
				if v := c.S.Viol; v != nil {
					v.Msg = fmt.Sprintf("auth=%v %s: the tunnel does not run as the confirmed user (host entry {{ preferred_username }}.desk.test): %s/%s %s", w.mechs, what, v.Oracle, v.Sig, v.Msg)
					v.Sig = "tunnel-user:" + v.Sig
					v.Oracle = "C05"
				}
			}
			t.Client.CloseAll(false)
			c.S.Run(nil, 100, time.Second)
			r = nil
		}
		if fault != "" {
			if fault == "auth-node-down" {
				w.node.Start()
			}
			w.node.SlowBy = 0
		}
		if r == nil {
			continue
		}
		log = append(log, fmt.Sprintf("%s %s%s->%d", method, what, fault, r.Status))
		if c.S.Viol != nil {
			break
		}
		if method != "RDG_OUT_DATA" && method != "RDG_IN_DATA" {
			// other methods never start a tunnel: the handler answers an empty 200
			if r.Status == 101 {
				c.S.Fail("C05", "upgrade-for-non-rdg-method", "auth=%v %s %s: 101", w.mechs, method, what)
			}
			credsOK := open || strings.HasPrefix(what, "basic-correct") && w.has("local") && fault == "" || strings.HasPrefix(what, "kerberos-valid")
			if !credsOK && r.Status == 200 {
				c.S.Fail("C05", "reached-without-credentials", "auth=%v %s %s %s: status 200 means the gateway handler was reached", w.mechs, method, what, fault)
			}
			continue
		}
		if reached(r) && !expectReached {
			c.S.Fail("C05", "reached-without-credentials", "auth=%v %s %s %s: status %d means the tunnel handler was reached", w.mechs, method, what, fault, r.Status)
		} else if !reached(r) && expectReached {
			c.S.Fail("C05", "good-credentials-refused", "auth=%v %s %s: expected the handler (101/200), got %d err=%q", w.mechs, method, what, r.Status, r.Err)
		}
	}
	c.Res.Reach = len(log) >= 3
	c.Res.CaseKey = strings.Join(w.mechs, "+") + " " + strings.Join(log, " ")
	c.Samplef("auth=%s tls=%v: %s", strings.Join(w.mechs, "+"), w.tls, strings.Join(log, " | "))
	_ = sim.StopIdle
}
