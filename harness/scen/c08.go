package scen

import (
	"fmt"
	"sort"
	"strings"
	"time"

	"simh/codec"
)

func init() {
	Register("c08", runC08)
}

// segPlan describes how the packet byte stream is cut into transport messages.
type segPlan struct {
	kind string
	segs [][2]int
}

// shapeOf derives the finding signature from the segmentation: how many packets end inside
// one transport message, and over how many messages one packet is spread.
func shapeOf(ends []int, segs [][2]int, transport string, stream bool) (maxCoalesced, maxFrags, firstFrag int) {
	start := 0
	for _, e := range ends {
		n := 0
		first := 0
		for _, sg := range segs {
			if sg[1] <= start || sg[0] >= e {
				continue
			}
			n++
			if first == 0 {
				first = min(sg[1], e) - max(sg[0], start)
			}
		}
		if n > maxFrags {
			maxFrags = n
		}
		if n > 1 && first > firstFrag {
			firstFrag = first
		}
		start = e
	}
	for _, sg := range segs {
		n := 0
		prev := 0
		for _, e := range ends {
			// packet [prev,e) overlaps the message
			if e > sg[0] && prev < sg[1] {
				n++
			}
			prev = e
		}
		if n > maxCoalesced {
			maxCoalesced = n
		}
	}
	return
}

func runC08(c *Ctx) {
	tr := []string{"ws", "legacy"}
	if c.Arg["transport"] != "" {
		tr = []string{c.Arg["transport"]}
	}
	tw := PlanTunnels(c, TunOpts{N: 1, Transports: tr})
	if !BootTun(c, tw, false) {
		return
	}
	p := tw.Plans[0]
	maxClient := 3000
	if c.T.Bool(1, 4) {
		maxClient = 20000
	}
	if c.T.Bool(1, 10) {
		maxClient = 65535 // several of these in one transport message exceed 128 KiB
	}
	d := buildStreamPlan(c, tw, p, 1+c.T.Choose(6), c.T.Choose(4), maxClient, 6000, false)
	if c.T.Bool(1, 4) {
		p.Pkts, _ = mutateHistory(c, tw, p, p.Pkts)
	}
	if c.T.Bool(1, 3) {
		p.Pkts = append(p.Pkts, PClose())
	}
	unframeable := ""
	if c.T.Bool(1, 6) {
		k := 1 + c.T.Choose(len(p.Pkts))
		if c.T.Bool(1, 2) {
			// a header whose length field is smaller than the header itself
			lf := uint32(c.T.Choose(8))
			bad := CPkt{Kind: KUnframeable, Bytes: codec.PacketRaw(uint16(1+c.T.Choose(16)), lf, c.T.Bytes(c.T.Choose(24), 5))}
			if c.T.Bool(1, 3) {
				// ... nothing but such a header, of a type that has no body anyway (keep-alive,
				// close): the length field is what counts, not what the type would need
				bad.Bytes = codec.PacketRaw([]uint16{codec.PktKeepalive, codec.PktCloseChannel, codec.PktData}[c.T.Choose(3)], lf, nil)
			}
			p.Pkts = append(append(append([]CPkt{}, p.Pkts[:k]...), bad), p.Pkts[k:]...)
			unframeable = fmt.Sprintf("length-field=%d at packet %d", lf, k)
		} else {
			// a packet that is never completed: the client goes away in the middle of it
			p.Pkts = append([]CPkt{}, p.Pkts[:k]...)
			full := PData(c.T.Bytes(50+c.T.Choose(5000), 6))
			cut := 1 + c.T.Choose(len(full.Bytes)-1)
			p.Pkts = append(p.Pkts, CPkt{Kind: KUnframeable, Bytes: full.Bytes[:cut]})
			p.CloseAfter = len(p.Pkts)
			unframeable = fmt.Sprintf("packet %d cut after %d of %d bytes, then client EOF", k, cut, len(full.Bytes))
		}
	}
	textFramed := ""
	if unframeable == "" && p.Transport == "ws" && c.T.Bool(1, 8) {
		// a well-formed packet that arrives in a websocket TEXT message: text messages carry no
		// packet data, the stream ends there and the packet has no effect
		k := 1 + c.T.Choose(len(p.Pkts))
		var inner CPkt
		if k < len(p.Pkts) {
			inner = p.Pkts[k]
		} else {
			inner = PData([]byte("text-framed"))
		}
		bad := CPkt{Kind: KUnframeable, Bytes: inner.Bytes, Wire: codec.WSFrame(true, 1, inner.Bytes, [4]byte{9, 8, 7, 6})}
		p.Pkts = append(append(append([]CPkt{}, p.Pkts[:k]...), bad), p.Pkts[k:]...)
		textFramed = fmt.Sprintf("packet %d (%s) sent as a websocket TEXT message", k, inner)
		unframeable = textFramed
	}
	var ends []int
	tot := 0
	for _, pk := range p.Pkts {
		tot += len(pk.Bytes)
		ends = append(ends, tot)
	}
	var sp segPlan
	one := func() [][2]int {
		var s [][2]int
		prev := 0
		for _, e := range ends {
			s = append(s, [2]int{prev, e})
			prev = e
		}
		return s
	}
	switch c.T.Weighted(1, 4, 3, 3, 2, 1) {
	case 5:
		// one packet arrives in very many small pieces (33-120 of them)
		sp = segPlan{"many-pieces", one()}
		k := c.T.Choose(len(ends))
		a := 0
		if k > 0 {
			a = ends[k-1]
		}
		b := ends[k]
		np := 33 + c.T.Choose(88)
		if b-a > np {
			var s [][2]int
			for i, sg := range sp.segs {
				if i != k {
					s = append(s, sg)
					continue
				}
				prev := a
				for j := 1; j < np; j++ {
					ct := a + (b-a)*j/np
					if ct > prev {
						s = append(s, [2]int{prev, ct})
						prev = ct
					}
				}
				s = append(s, [2]int{prev, b})
			}
			sp.segs = s
			sp.kind = fmt.Sprintf("packet %d (%d bytes) in %d pieces", k, b-a, np)
		}
	case 0:
		sp = segPlan{"one-per-message", one()}
	case 1:
		// one or two cuts inside one chosen packet (positions swept by the tape)
		sp = segPlan{"split-one-packet", one()}
		k := c.T.Choose(len(ends))
		a := 0
		if k > 0 {
			a = ends[k-1]
		}
		b := ends[k]
		if b-a >= 2 {
			c1 := a + 1 + c.T.Choose(b-a-1)
			cuts := []int{c1}
			if c.T.Bool(1, 2) && b-a >= 3 {
				c2 := a + 1 + c.T.Choose(b-a-1)
				if c2 != c1 {
					cuts = append(cuts, c2)
				}
			}
			sort.Ints(cuts)
			var s [][2]int
			for i, sg := range sp.segs {
				if i != k {
					s = append(s, sg)
					continue
				}
				prev := a
				for _, ct := range cuts {
					s = append(s, [2]int{prev, ct})
					prev = ct
				}
				s = append(s, [2]int{prev, b})
			}
			sp.segs = s
			sp.kind = fmt.Sprintf("split packet %d at %v", k, cuts)
		}
	case 2:
		// coalesce 2..n consecutive packets
		sp = segPlan{"coalesce", nil}
		segs := one()
		i := c.T.Choose(len(segs))
		n := 2 + c.T.Choose(3)
		j := min(len(segs), i+n)
		var s [][2]int
		s = append(s, segs[:i]...)
		s = append(s, [2]int{segs[i][0], segs[j-1][1]})
		s = append(s, segs[j:]...)
		sp.segs = s
		sp.kind = fmt.Sprintf("coalesce packets %d..%d", i, j-1)
	case 3:
		// boundaries independent of packets
		sp = segPlan{"random-cuts", nil}
		n := 1 + c.T.Choose(2*len(ends)+2)
		cutSet := map[int]bool{}
		for i := 0; i < n; i++ {
			cutSet[1+c.T.Choose(tot-1)] = true
		}
		var cuts []int
		for k := range cutSet {
			cuts = append(cuts, k)
		}
		sort.Ints(cuts)
		prev := 0
		for _, ct := range cuts {
			sp.segs = append(sp.segs, [2]int{prev, ct})
			prev = ct
		}
		sp.segs = append(sp.segs, [2]int{prev, tot})
	default:
		// everything in one message
		sp = segPlan{"all-in-one", [][2]int{{0, tot}}}
	}
	if c.T.Bool(1, 5) && len(sp.segs) > 1 {
		// the client falls silent for a while (31-150 s in total) before one or two of its
		// transport messages, possibly in the middle of a packet
		for k := 0; k < 1+c.T.Choose(2); k++ {
			if p.QuietBefore == nil {
				p.QuietBefore = map[int]time.Duration{}
			}
			p.QuietBefore[1+c.T.Choose(len(sp.segs)-1)] = time.Duration(31+c.T.Choose(45)) * time.Second
		}
		sp.kind += " +quiet-periods"
	}
	p.Segs = sp.segs
	if textFramed != "" {
		// one transport message per packet, so that the TEXT message is a message of its own
		p.Segs = nil
		sp.kind = "one-per-message (with a TEXT message)"
	}
	p.Stream = c.T.Bool(1, 2) // TCP-level re-segmentation on top
	if p.Transport == "legacy" && c.T.Bool(1, 3) {
		// the client ends the request body after its last byte (also after a packet it never
		// completes): the end of the body is not part of any packet
		p.EndBody = 1 + c.T.Choose(2)
		if p.CloseAfter >= 0 {
			p.CloseAfter = -1
		}
		sp.kind += fmt.Sprintf(" +end-of-body(%d)", p.EndBody)
	}
	if p.Transport == "ws" && c.T.Bool(1, 4) {
		p.WSFrames = 2 + c.T.Choose(3)
	}
	if p.Transport == "ws" && c.T.Bool(1, 5) {
		// some clients (and proxies) send empty binary messages now and then
		p.EmptyMsgEvery = 1 + c.T.Choose(3)
		sp.kind += " +empty-messages"
	}
	reconnect := ""
	if c.T.Bool(1, 5) {
		// history: an earlier connection with the same connection id broke off inside a packet
		// (a client that reconnects); the new connection's stream starts with its own first byte
		gtr := []string{"ws", "legacy"}[c.T.Choose(2)]
		g := &TunPlan{Name: "g0", Transport: gtr, From: p.From, ConnID: p.ConnID, User: p.User, AccessToken: p.AccessToken, CloseAfter: -1}
		part := PTunnelCreate(ValidCookie(c, tw, g, p.AllowedHost), true)
		cut := 1 + c.T.Choose(len(part.Bytes)-1)
		g.Pkts = []CPkt{PHandshake(tw.MC.ServerCaps, 1, 0), {Kind: KUnframeable, Bytes: part.Bytes[:cut]}}
		g.CloseAfter = 2
		g.CloseReset = c.T.Bool(1, 2)
		gt := StartTunnels(c, []*TunPlan{g})
		RunTunnels(c, gt, 3000)
		c.S.Run(nil, 300, 2*time.Second)
		c.S.Draining = false
		reconnect = fmt.Sprintf("after-broken-%s-connection-with-same-id(cut %d/%d)", gtr, cut, len(part.Bytes))
		sp.kind += " " + reconnect
		c.S.Count("probe.reconnect_same_id")
	}
	tw.Tuns = StartTunnels(c, tw.Plans)
	RunTunnels(c, tw.Tuns, 20000)
	t := tw.Tuns[0]
	if t.Client.Failed != "" || t.Err != "" {
		c.Infra("transport setup failed: %s %s", t.Client.Failed, t.Err)
		return
	}
	if reconnect != "" && !t.Client.Ready {
		c.S.Fail("C08", "reconnect-not-served", "[%s %s] the new connection's packets were never read: its transport was not accepted (%s)", p.Transport, reconnect, t.Client.Describe())
	}
	coal, frags, first := shapeOf(ends, sp.segs, p.Transport, p.Stream)
	maxPkt := 0
	for _, pk := range p.Pkts {
		if len(pk.Bytes) > maxPkt {
			maxPkt = len(pk.Bytes)
		}
	}
	v := CheckTunnel(c, t, tw.MC, "C08")
	if c.S.Viol != nil && (c.S.Viol.Sig == "host-stream-mismatch" || c.S.Viol.Sig == "relay-unauthorised") {
		c.S.Viol = nil
	}
	if c.S.Viol == nil {
		sv := CheckStreams(c, t, v, "C08", !v.Dead && !t.closed)
		if c.S.Viol == nil && sv != nil && strings.HasPrefix(unframeable, "length-field=") && p.CloseAfter < 0 && p.EndBody == 0 && sv.HostGot < sv.HostWant {
			// the stream could not be framed any further, but every packet in front of that point
			// was complete: its effects are the same as with any other segmentation, i.e. the
			// payloads of those data packets have reached the host by the time the tunnel is gone.
			// (Only where the GATEWAY ends the tunnel at the bad header while the client stays: a
			// client that hangs up itself may make any response write fail, after which the gateway
			// rightly drops whatever it had not processed yet.)
			c.S.Fail("C08", "host-stream-incomplete", "%s/%s: the tunnel ended at %s; the data packets in front of that point declared %d payload bytes, the host received %d (sent=%s)", p.Name, p.Transport, unframeable, sv.HostWant, sv.HostGot, planString(p, len(t.Client.Sent)))
		}
	}
	if vi := c.S.Viol; vi != nil {
		// the same packets in the same order must have the same effects whatever the
		// segmentation: any divergence from the model in this scenario is a C08 failure,
		// classified by the shape of the segmentation that provoked it
		var parts []string
		if coal >= 2 {
			parts = append(parts, "coalesced>=2")
		}
		if frags >= 3 {
			parts = append(parts, "frag>=3")
		}
		if frags == 2 && first > 4096 {
			parts = append(parts, "first-frag>4096")
		}
		if p.Transport == "legacy" && maxPkt > 8192 {
			parts = append(parts, "legacy-packet>8192")
		}
		if p.Transport == "legacy" && (p.Stream || maxPkt > 4096) && len(parts) == 0 {
			parts = append(parts, "legacy-reads-not-chunk-aligned")
		}
		if len(parts) == 0 {
			parts = append(parts, "plain:"+vi.Sig)
		}
		vi.Msg = fmt.Sprintf("[%s segmentation=%s tcp-resegmentation=%v ws-frames=%d max-packets-per-message=%d max-messages-per-packet=%d] %s: %s", p.Transport, sp.kind, p.Stream, p.WSFrames, coal, frags, vi.Oracle+"/"+vi.Sig, vi.Msg)
		vi.Oracle = "C08"
		vi.Sig = strings.Join(parts, "+")
	}
	if coal >= 2 {
		c.S.Count("probe.coalesced_messages")
	}
	if frags >= 2 {
		c.S.Count("probe.fragmented_packets")
	}
	c.Res.Reach = len(t.Client.Sent) >= 4 && (coal >= 2 || frags >= 2 || p.Stream)
	if unframeable != "" {
		c.S.Count("probe.unframeable_stream")
		if c.S.Viol == nil && !t.Client.Ended() && !t.closed {
			c.S.Fail("C08", "unframeable-not-ended", "[%s %s] the stream cannot be framed but the gateway did not end the tunnel: %s", p.Transport, unframeable, t.Client.Describe())
		}
		d += " unframeable{" + unframeable + "}"
	}
	c.Samplef("%s; segmentation=%s (%d messages for %d packets, %d bytes) tcp-resegmentation=%v ws-frames=%d", d, sp.kind, len(sp.segs), len(ends), tot, p.Stream, p.WSFrames)
}
