package scen

import (
	"fmt"
	"net"
	"os"
	"strings"
	"syscall"
	"time"

	"simh/sim"
)

func init() {
	Register("c16", runC16)
	Register("c17", runC17)
}

func boundaryInt32(c *Ctx) int {
	vals := []int{0, 1, 30, 120, -1, -2, 1 << 31 >> 1, -(1 << 31), (1 << 31) - 1, 65535, 65536, -65536, 1440}
	if c.T.Bool(1, 3) {
		return c.T.Choose(1<<31) - c.T.Choose(2)*(1<<31)
	}
	return vals[c.T.Choose(len(vals))]
}

// drawPolicy draws the redirect switches (2^7), idle timeout and smart-card setting.
func drawPolicy(c *Ctx, tw *TunWorld) string {
	cfg := tw.Cfg
	bits := c.T.Choose(128)
	cfg.Clipboard = bits&1 != 0
	cfg.Printer = bits&2 != 0
	cfg.Port_ = bits&4 != 0
	cfg.Pnp = bits&8 != 0
	cfg.Drive = bits&16 != 0
	cfg.DisableRedir = bits&32 != 0
	cfg.RedirectAll = bits&64 != 0
	cfg.IdleTimeout = boundaryInt32(c)
	cfg.SmartCardAuth = c.T.Bool(1, 3)
	return fmt.Sprintf("redir-bits=%07b idle=%d sc=%v", bits, cfg.IdleTimeout, cfg.SmartCardAuth)
}

// runC16: every packet of histories with every kind of outcome, under a drawn policy.
func runC16(c *Ctx) {
	tw := PlanTunnels(c, TunOpts{N: 1 + c.T.Weighted(3, 1), Transports: []string{"ws", "legacy"}, ExtraHosts: []string{"again.test:3389"}})
	pol := drawPolicy(c, tw)
	tw.NTLM = c.T.Bool(1, 5)
	if !BootTun(c, tw, false) {
		return
	}
	// how the unreachable hosts are unreachable: nobody listens (refused), packets vanish
	// (black hole), or the attempt fails on the gateway's own machine (no descriptor, no buffers,
	// no local address, no route)
	unreach := c.T.Weighted(2, 1, 1)
	if unreach == 2 {
		errno := []syscall.Errno{syscall.EMFILE, syscall.ENFILE, syscall.EADDRNOTAVAIL, syscall.ENOBUFS, syscall.EACCES, syscall.ENETUNREACH, syscall.EHOSTUNREACH}[c.T.Choose(7)]
		c.S.DialLocalErr = &net.OpError{Op: "dial", Net: "tcp", Err: os.NewSyscallError(map[bool]string{true: "socket", false: "connect"}[errno == syscall.EMFILE || errno == syscall.ENFILE || errno == syscall.ENOBUFS], errno)}
	}
	c.S.DialHook = func(network, from, to string) sim.DialVerdict {
		if strings.HasPrefix(strings.ToLower(to), "u-") {
			switch unreach {
			case 1:
				return sim.DialBlackhole
			case 2:
				return sim.DialLocalFailure
			}
		}
		return sim.DialDefault
	}
	var descr []string
	for _, p := range tw.Plans {
		p.HostScript = [][]byte{c.T.Bytes(1+c.T.Choose(9000), 0xB0)}
		h := IdealHistory(c, tw, p, c.T.Choose(3), func() int { return c.T.Choose(300) }, c.T.Bool(1, 2))
		// outcome variety: accepted / wrong phase / rejected cookie / denied host / unreachable host
		var notes []string
		p.Pkts, notes = mutateHistory(c, tw, p, h)
		descr = append(descr, fmt.Sprintf("%s/%s: %s {%s}", p.Name, p.Transport, planString(p, len(p.Pkts)), strings.Join(notes, "; ")))
	}
	tw.Tuns = StartTunnels(c, tw.Plans)
	firstPartOver := false
	if tw.MC.TokenAuth && c.T.Bool(1, 5) {
		// the identity provider revokes a user's access token after that user's tunnel was
		// created: what was accepted stays accepted, the later steps are judged on their own
		t0 := tw.Tuns[0]
		revoked := false
		c.S.AddActor("F token revoked after tunnel create", func() bool {
			return !revoked && !firstPartOver && len(t0.Client.Packets()) >= 2 && !c.S.Draining
		}, func() {
			revoked = true
			if tk := c.W.IdP.Tokens[t0.Plan.AccessToken]; tk != nil {
				tk.Revoked = true
				c.S.Count("fault.idp.token_revoked_between_steps")
			}
		})
	}
	for _, t := range tw.Tuns {
		for _, h := range t.Hosts {
			// the host may hang up (after its banner, or with a reset) before the client closes
			switch c.T.Weighted(4, 1, 1) {
			case 1:
				h.CloseAfterScript = true
			case 2:
				h.ResetAfter = c.T.Choose(len(h.Script) + 1)
			}
		}
	}
	RunTunnels(c, tw.Tuns, 5000)
	firstPartOver = true
	for _, tk := range c.W.IdP.Tokens {
		tk.Revoked = false // (the histories below are about other things)
	}
	npk := 0
	for _, t := range tw.Tuns {
		if t.Client.Failed != "" || t.Err != "" {
			c.Infra("tunnel %s transport setup failed: %s %s", t.Plan.Name, t.Client.Failed, t.Err)
			return
		}
		v := CheckTunnel(c, t, tw.MC, "C16")
		if vi := c.S.Viol; vi != nil && vi.Oracle == "C03" && vi.Sig == "wrong-status" {
			// "host-policy denial [is] reported by [its] MS-TSGU status code" is C16's clause too
			vi.Oracle = "C16"
		}
		if c.S.Viol != nil {
			break
		}
		if v.Reached >= stAuthorized {
			c.S.Count("probe.tunnel_auth_response_checked")
		}
		npk += len(t.Client.Packets())
	}
	if c.S.Viol == nil && !tw.NTLM && c.T.Bool(1, 5) {
		// history: a host that accepted a channel a moment ago goes down; the next channel
		// create for it is not accepted, and its response must say so
		c.S.Draining = false
		hst := c.W.AddHost("again.test:3389", [][]byte{[]byte("banner")})
		for k := 0; k < 2 && c.S.Viol == nil; k++ {
			p := &TunPlan{Name: fmt.Sprintf("s%d", k), Transport: []string{"ws", "legacy"}[c.T.Choose(2)], From: fmt.Sprintf("10.1.8.%d:4100%d", 1+k, k), ConnID: fmt.Sprintf("{AGAIN-%d-%d}", c.Res.Seed, k), User: "user0", CloseAfter: -1}
			p.AccessToken = tw.Plans[0].AccessToken
			verdict := HostAllowed
			if k == 1 {
				verdict = HostUnreachable
			}
			p.Pkts = []CPkt{PHandshake(tw.MC.ServerCaps, 1, 0), PTunnelCreate(ValidCookie(c, tw, p, "again.test:3389"), true), PTunnelAuth("n"), PChannel("again.test:3389", verdict), PData([]byte("hello"))}
			if tw.MC.ServerCaps == 0 {
				p.Pkts[0] = PHandshake(0, 1, 0)
			}
			ts := StartTunnels(c, []*TunPlan{p})
			if k == 0 {
				ts[0].Hosts = append(ts[0].Hosts, hst)
			}
			// (short waits: the whole history stays within a few seconds of simulated time)
			t1 := ts[0]
			c.S.Run(func() bool { return t1.SentAll() || t1.Client.Failed != "" }, 3000, 2*time.Second)
			c.S.Run(nil, 400, 300*time.Millisecond)
			CheckTunnel(c, t1, tw.MC, "C16")
			t1.Client.CloseAll(false)
			c.S.Run(nil, 200, 200*time.Millisecond)
			if k == 0 {
				hst.Down()
				c.S.Advance(time.Duration(c.T.Choose(12)) * time.Second)
			}
		}
		c.S.Count("probe.host_down_after_success")
	}
	if v := c.S.Viol; v != nil && v.Oracle == "C01" && v.Sig == "success-out-of-order" && strings.Contains(v.Msg, "unreach") {
		// status 0 for a channel create that was not accepted (the host cannot be reached)
		v.Oracle = "C16"
	}
	c.S.Stats["probe.server_packets_decoded"] += npk
	c.Res.Reach = npk >= 2
	c.Samplef("policy{%s} means redir=%#x idle=%d caps=%#x; %s", pol, tw.MC.Redir, tw.MC.Idle, tw.MC.ServerCaps, strings.Join(descr, " | "))
}

// runC17: one handshake per tunnel over client capability values x server settings x versions;
// a second tunnel may be shaking hands at the same time.
func runC17(c *Ctx) {
	tw := PlanTunnels(c, TunOpts{N: 1 + c.T.Weighted(2, 1), Transports: []string{"ws", "legacy"}})
	tw.Cfg.SmartCardAuth = c.T.Bool(1, 2)
	tw.NTLM = c.T.Bool(1, 2) // all four server settings of {cookie auth, smart card}
	// half of the runs sweep the product {4 server settings} x {65536 client values} by seed:
	// 262144 consecutive seeds visit every cell once (the thorough tier several times over)
	sweep := c.T.Bool(1, 2)
	cell := int(c.Res.Seed & 0x3ffff)
	if _, fixed := c.Arg["caps"]; fixed {
		sweep = false
	}
	if sweep {
		tw.Cfg.SmartCardAuth = cell>>16&1 == 1
		tw.NTLM = cell>>17&1 == 1
		c.S.Count("probe.sweep_cell")
	}
	if !BootTun(c, tw, false) {
		return
	}
	capsOf := map[string]uint16{}
	twice := map[string]bool{}
	verOf := map[string][2]byte{}
	for _, p := range tw.Plans {
		var caps uint16
		switch c.T.Weighted(4, 4, 2) {
		case 0:
			caps = []uint16{0, 1, 2, 3, 4, 5, 6, 7, 8, 0x10, 0x8000, 0xffff, 0xfffe, 0xfffd, 0xfffc, 0x0100, 0x0200}[c.T.Choose(17)]
		case 1:
			caps = uint16(c.T.Choose(0x10000))
		default:
			caps = uint16(1) << uint(c.T.Choose(16))
		}
		if v, ok := c.Arg["caps"]; ok {
			var x int
			fmt.Sscanf(v, "%d", &x)
			caps = uint16(x)
		}
		if sweep && p == tw.Plans[0] {
			caps = uint16(cell & 0xffff)
		}
		major, minor := byte(c.T.Choose(256)), byte(c.T.Choose(256))
		capsOf[p.Name], verOf[p.Name] = caps, [2]byte{major, minor}
		p.Pkts = []CPkt{PHandshake(caps, major, minor), PTunnelCreate(ValidCookie(c, tw, p, p.AllowedHost), true), PTunnelAuth("n")}
		if c.T.Bool(1, 5) {
			// a client that shakes hands twice (a retry, or a second offer with other capabilities
			// and another version): the second request is out of order whatever it offers and is
			// never answered with success - not with the answer to the first one either
			caps2 := []uint16{caps, 0, 1, 2, 4, 0x8000, ^caps}[c.T.Choose(7)]
			second := PHandshake(caps2, byte(c.T.Choose(256)), byte(c.T.Choose(256)))
			p.Pkts = append([]CPkt{p.Pkts[0], second}, p.Pkts[1:]...)
			twice[p.Name] = true
			c.S.Count("probe.second_handshake_on_one_tunnel")
		}
		if len(tw.Plans) == 1 && c.T.Bool(1, 4) {
			// a client that takes its time (a credential prompt, a suspended laptop): the transport
			// is up, the handshake follows half a minute to three minutes later
			p.QuietBefore = map[int]time.Duration{0: time.Duration(31+c.T.Choose(150)) * time.Second}
		}
		if c.T.Bool(1, 4) {
			// a client that pipelines: the handshake travels in one transport message with the
			// packets that follow it
			tot := 0
			for _, pk := range p.Pkts {
				tot += len(pk.Bytes)
			}
			first := len(p.Pkts[0].Bytes) + len(p.Pkts[1].Bytes)
			p.Segs = [][][2]int{{{0, tot}}, {{0, first}, {first, tot}}}[c.T.Choose(2)]
			c.S.Count("probe.pipelined_handshake")
		}
	}
	if !tw.NTLM && c.T.Bool(1, 8) {
		// history: the same client machine was refused several times a moment ago (a client that
		// retries with the wrong settings); each handshake is judged on its own
		bad := uint16(0)
		if tw.MC.ServerCaps == 0 {
			bad = 1 + uint16(c.T.Choose(7))
		} else if c.T.Bool(1, 2) {
			bad = 4
		}
		nb := 5 + c.T.Choose(4)
		ip := clientIP(tw.Plans[0].From)
		for k := 0; k < nb; k++ {
			bp := &TunPlan{Name: fmt.Sprintf("r%d", k), Transport: tw.Plans[0].Transport, From: fmt.Sprintf("%s:%d", ip, 42000+k), ConnID: fmt.Sprintf("{C17R-%d-%d}", c.Res.Seed&0xffff, k), CloseAfter: -1}
			if strings.Contains(ip, ":") {
				bp.From = fmt.Sprintf("[%s]:%d", ip, 42000+k)
			}
			bp.Pkts = []CPkt{PHandshake(bad, 1, 0)}
			bt := StartTunnels(c, []*TunPlan{bp})
			c.S.Run(func() bool {
				return bt[0].Client.Failed != "" || bt[0].Err != "" || len(bt[0].Client.Packets()) >= 1 || bt[0].Client.Ended()
			}, 3000, 10*time.Second)
			bt[0].Client.CloseAll(false)
		}
		c.S.Run(nil, 100, time.Second)
		c.S.Count("probe.refused_handshakes_from_the_same_machine_before")
	}
	tw.Tuns = StartTunnels(c, tw.Plans)
	RunTunnels(c, tw.Tuns, 3000)
	for _, t := range tw.Tuns {
		if t.Client.Failed != "" || t.Err != "" {
			c.Infra("transport setup failed: %s %s", t.Client.Failed, t.Err)
			return
		}
	}
	var outs []string
	for _, t := range tw.Tuns {
		p := t.Plan
		caps := capsOf[p.Name]
		v := CheckTunnel(c, t, tw.MC, "C17")
		if c.S.Viol != nil && (c.S.Viol.Oracle == "C01" || c.S.Viol.Oracle == "C16") {
			// in this scenario the only reason for a refusal is the capability check
			c.S.Viol.Oracle = "C17"
		}
		if c.S.Viol != nil {
			if len(tw.Tuns) > 1 {
				c.S.Viol.Msg = fmt.Sprintf("[%d tunnels shaking hands at the same time] %s", len(tw.Tuns), c.S.Viol.Msg)
			}
			break
		}
		ok := (caps == 0 && tw.MC.ServerCaps == 0) || caps&tw.MC.ServerCaps != 0
		if !ok {
			c.S.Count("probe.capability_mismatch")
			// the tunnel must end: the gateway closes the server-to-client stream
			if !t.Client.Ended() {
				c.S.Fail("C17", "tunnel-not-ended", "%s: after the capability mismatch (client %#x, server %#x) the gateway did not end the tunnel: %s", p.Name, caps, tw.MC.ServerCaps, t.Client.Describe())
			}
		} else {
			c.S.Count("probe.capability_match")
			if v.Reached < stCreated && !twice[p.Name] {
				c.S.Fail("C17", "cannot-proceed", "%s: handshake matched (client %#x, server %#x) but the tunnel could not proceed: %s", p.Name, caps, tw.MC.ServerCaps, t.Client.Describe())
			}
		}
		outs = append(outs, fmt.Sprintf("%s client-caps=%#x version=%d.%d => accepted=%v events=%s", p.Transport, caps, verOf[p.Name][0], verOf[p.Name][1], v.Accepted, t.Client.Describe()))
	}
	c.Res.Reach = true
	c.Samplef("server-caps=%#x: %s", tw.MC.ServerCaps, strings.Join(outs, " | "))
}
