package scen

import (
	"encoding/base64"
	"fmt"
	"strings"
	"time"

	"simh/codec"
	"simh/env"

	authconfig "github.com/bolkedebruin/rdpgw/cmd/auth/config"
)

func init() {
	Register("c14", runC14)
}

type ntlmSess struct {
	chal       *codec.NTLMChallenge
	issued     time.Time
	firstTouch time.Time // first message on this session since its context was last dropped
	touched    bool
	lastOK     bool // the previous message on this session was a negotiate answered by a challenge
}

// runC14: NTLM message histories over several sessions against the real verifier, through
// the auth node's gRPC interface.
func runC14(c *Ctx) {
	users := []authconfig.UserConfig{{Username: "alice", Password: "correct horse battery"}}
	switch c.T.Weighted(1, 1, 3) {
	case 1:
		users = append(users, authconfig.UserConfig{Username: "bob", Password: ""})
	case 2:
		users = append(users, authconfig.UserConfig{Username: "bob", Password: ""}, authconfig.UserConfig{Username: "carol", Password: "pässwörd-ü"})
	}
	if c.T.Bool(1, 4) {
		// two configured users whose names differ only in case
		users = append(users, authconfig.UserConfig{Username: "Alice", Password: "another password entirely"})
	}
	if c.T.Bool(1, 4) {
		// a configured password that begins and ends with a blank
		users = append(users, authconfig.UserConfig{Username: "dora", Password: " two words "})
	}
	if c.T.Bool(1, 4) {
		// an account with a long principal-style name
		users = append(users, authconfig.UserConfig{Username: "svc-" + longName(150) + "@subsidiary.emea.corp.example.com", Password: "a passphrase of several words, with punctuation!"})
	}
	// the client's clock is not the service's clock: it stamps its response by its own, and it
	// names its own workstation
	skew := []time.Duration{0, 0, 0, time.Second, 10 * time.Minute, 26 * time.Hour, -10 * time.Minute, -72 * time.Hour}[c.T.Choose(8)]
	if skew != 0 {
		c.S.Count("fault.clock.ntlm_client_skewed")
	}
	ws := []string{"WS", "WS", "LAPTOP-0123456789ABCDEF.branch-office-with-a-long-name.emea.corp.example.com"}[c.T.Choose(3)]
	db := map[string]string{}
	for _, u := range users {
		db[u.Username] = u.Password
	}
	// what the helper's secure random source does: healthy, unavailable while the helper starts,
	// or handing out a single byte per read
	c.W.AuthEntropy = []string{"", "fail-at-start", "short-reads"}[c.T.Weighted(8, 1, 1)]
	node := c.W.StartAuthNode("/sim/auth.sock", users, nil)
	ns := 1 + c.T.Choose(4)
	sess := map[string]*ntlmSess{}
	names := []string{}
	for i := 0; i < ns; i++ {
		// (pairs of sessions are connections from one client machine: same address, other port)
		n := fmt.Sprintf("10.7.0.%d:%d", i/2+1, 50000+i)
		names = append(names, n)
		sess[n] = &ntlmSess{}
	}
	var sent []string // earlier type-3 messages (for replays)
	var log []string
	nops := 4 + c.T.Choose(11)
	b64 := base64.StdEncoding.EncodeToString
	mkType3 := func(user, pass, domain string, ch *codec.NTLMChallenge) string {
		nt, lm, sbk := codec.NTLMv2Response(user, pass, domain, ch.ServerChallenge, c.T.Bytes(8, 1), ch.TargetInfo, time.Now().Add(skew))
		return b64(codec.NTLMAuthenticate(user, domain, ws, nt, lm, sbk))
	}
	// mkType3x names one user in the message but derives the response key from another
	// user's name and password (what an insider who knows only their own password can do)
	mkType3x := func(nameField, keyUser, pass, domain string, ch *codec.NTLMChallenge) string {
		nt, lm, sbk := codec.NTLMv2Response(keyUser, pass, domain, ch.ServerChallenge, c.T.Bytes(8, 1), ch.TargetInfo, time.Now().Add(skew))
		return b64(codec.NTLMAuthenticate(nameField, domain, ws, nt, lm, sbk))
	}
	dummy := &codec.NTLMChallenge{ServerChallenge: []byte("12345678"), TargetInfo: []byte{0, 0, 0, 0}}
	if c.W.AuthEntropy == "short-reads" {
		// forty clients start an exchange: no two of them may be given the same challenge
		seen := map[string]string{}
		for k := 0; k < 40 && c.S.Viol == nil; k++ {
			sn := fmt.Sprintf("10.7.9.%d:%d", 1+k, 51000+k)
			res := node.CallNTLM(sn, b64(codec.NTLMNegotiate()), 5*time.Second)
			if res.Resp == nil || res.Resp.NtlmMessage == "" {
				c.S.Fail("C14", "negotiate-unanswered", "session %s: a well-formed negotiate message got no challenge (err=%v) while the random source hands out one byte per read", sn, res.Err)
				break
			}
			raw, _ := base64.StdEncoding.DecodeString(res.Resp.NtlmMessage)
			if ch, err := codec.ParseNTLMChallenge(raw); err == nil {
				if o, dup := seen[string(ch.ServerChallenge)]; dup {
					c.S.Fail("C14", "challenge-reused", "sessions %s and %s were given the same server challenge %x (the random source hands out one byte per read): a response recorded on one replays on the other", o, sn, ch.ServerChallenge)
				}
				seen[string(ch.ServerChallenge)] = sn
			}
		}
	}
	if c.T.Bool(1, 250) && c.S.Viol == nil {
		// thousands of clients start exchanges and walk away; minutes later (their exchanges have
		// lapsed) a user logs in
		for k := 0; k < 4200; k++ {
			node.CallNTLM(fmt.Sprintf("10.8.%d.%d:%d", k/250, 1+k%250, 30000+k), b64(codec.NTLMNegotiate()), 5*time.Second)
		}
		c.S.Advance(time.Duration(61+c.T.Choose(220)) * time.Second)
		sn := "10.7.8.8:50888"
		res := node.CallNTLM(sn, b64(codec.NTLMNegotiate()), 5*time.Second)
		ok := false
		if res.Resp != nil && res.Resp.NtlmMessage != "" {
			raw, _ := base64.StdEncoding.DecodeString(res.Resp.NtlmMessage)
			if ch, err := codec.ParseNTLMChallenge(raw); err == nil {
				r2 := node.CallNTLM(sn, mkType3("alice", db["alice"], "", ch), 5*time.Second)
				ok = r2.Resp != nil && r2.Resp.Authenticated && r2.Resp.Username == "alice"
			}
		}
		c.S.Count("probe.thousands_of_abandoned_exchanges_then_a_login")
		if !ok {
			c.S.Fail("C14", "valid-client-refused", "after 4200 abandoned exchanges that lapsed minutes ago, a client that knows alice's password follows the exchange and is not authenticated (negotiate err=%v)", res.Err)
		}
	}
	pendingInsider, pendingSess := "", ""
	forcedUser, forcedSteps, forcedSess := "", 0, ""
	for i := 0; i < nops && c.S.Viol == nil; i++ {
		sn := names[c.T.Choose(len(names))]
		s := sess[sn]
		kind := c.T.Weighted(5, 5, 2, 2, 2, 2, 2, 2, 1, 1, 1, 3, 2, 2, 0, 1, 1)
		if pendingInsider != "" {
			kind = 14 // second half of the two-message sequence started below
		}
		if forcedSteps == 2 {
			kind, forcedSteps = 0, 1
			sn, s = forcedSess, sess[forcedSess]
		} else if forcedSteps == 1 {
			kind, forcedSteps = 17, 0
			sn, s = forcedSess, sess[forcedSess]
		}
		var msg, what string
		mustAuth := ""
		switch kind {
		case 0:
			what, msg = "negotiate", b64(codec.NTLMNegotiate())
		case 1:
			// a client that knows the password answers the session's current challenge
			user := users[c.T.Choose(len(users))].Username
			ch := s.chal
			if ch == nil {
				// no challenge was issued on this session: the client proves the password
				// against a challenge of its own choosing, or against none at all
				k := c.T.Choose(3)
				ch = []*codec.NTLMChallenge{dummy, {ServerChallenge: nil, TargetInfo: []byte{0, 0, 0, 0}}, {ServerChallenge: make([]byte, 8), TargetInfo: []byte{0, 0, 0, 0}}}[k]
				what = fmt.Sprintf("auth-correct-password-without-negotiate(%s,%s)", user, []string{"made-up challenge", "empty challenge", "all-zero challenge"}[k])
			} else {
				what = "auth-correct(" + user + ")"
				if db[user] != "" && s.lastOK && time.Since(s.firstTouch) < 55*time.Second {
					mustAuth = user
				}
			}
			msg = mkType3(user, db[user], []string{"", "CORP", "subsidiary-of-a-holding.emea.corp.example.com"}[c.T.Choose(3)], ch)
		case 2:
			ch := s.chal
			if ch == nil {
				ch = dummy
			}
			wu := users[c.T.Choose(len(users))].Username
			what, msg = "auth-wrong-password("+wu+")", mkType3(wu, "not the password", "", ch)
		case 3:
			ch := s.chal
			if ch == nil {
				ch = dummy
			}
			guess := []string{"anything", "", "00000000000000000000000000000000", "0000000000000000", strings.Repeat("\x00", 16)}[c.T.Choose(5)]
			what, msg = fmt.Sprintf("auth-unknown-user(password %q)", guess), mkType3("mallory", guess, "", ch)
		case 4:
			// proof computed against another session's challenge
			other := sess[names[c.T.Choose(len(names))]]
			ch := other.chal
			if ch == nil || other == s {
				ch = dummy
			}
			what, msg = "auth-other-sessions-challenge", mkType3("alice", db["alice"], "", ch)
		case 5:
			if len(sent) > 0 {
				what, msg = "replay", sent[c.T.Choose(len(sent))]
			} else {
				what, msg = "negotiate", b64(codec.NTLMNegotiate())
			}
		case 6:
			switch c.T.Choose(4) {
			case 0:
				what, msg = "garbage-not-base64", "!!!"+codec.B64(c.T.Bytes(5, 2))+"*"
			case 1:
				what, msg = "garbage-random", b64(c.T.Bytes(1+c.T.Choose(80), 3))
			case 2:
				t1 := codec.NTLMNegotiate()
				what, msg = "truncated-type1", b64(t1[:12+c.T.Choose(len(t1)-12)])
			default:
				ch := s.chal
				if ch == nil {
					ch = dummy
				}
				raw, _ := base64.StdEncoding.DecodeString(mkType3("alice", db["alice"], "", ch))
				what, msg = "truncated-type3", b64(raw[:64+c.T.Choose(len(raw)-64)])
			}
		case 7:
			what, msg = "empty-message", ""
		case 15:
			// the user database takes 2.5-4 s over this look-up (the caller waits up to 5 s); the
			// NEXT message on this session names another user and reuses this user's key
			user := users[c.T.Choose(len(users))].Username
			ch := s.chal
			if ch == nil {
				ch = dummy
			}
			node.DBDelay, node.DBSlowCalls = time.Duration(2500+c.T.Choose(1500))*time.Millisecond, 1
			what, msg = "auth-correct-while-the-database-is-slow("+user+")", mkType3(user, db[user], "", ch)
			if s.chal != nil && db[user] != "" && s.lastOK && time.Since(s.firstTouch) < 50*time.Second {
				mustAuth = user
			}
			pendingInsider, pendingSess = user, sn
			c.S.Count("fault.authdb.slow")
		case 16:
			// several failed attempts for one user in a row, from sessions of their own, then
			// (next message) a client that knows the password starts an exchange
			user := users[c.T.Choose(len(users))].Username
			for k := 0; k < 5+c.T.Choose(4); k++ {
				bs := fmt.Sprintf("10.7.9.%d:%d", 1+k, 59000+k)
				if r0 := node.CallNTLM(bs, b64(codec.NTLMNegotiate()), 5*time.Second); r0.Resp != nil && r0.Resp.NtlmMessage != "" {
					raw, _ := base64.StdEncoding.DecodeString(r0.Resp.NtlmMessage)
					if bch, err := codec.ParseNTLMChallenge(raw); err == nil {
						rb := node.CallNTLM(bs, mkType3(user, "guess number "+fmt.Sprint(k), "", bch), 5*time.Second)
						if rb.Resp != nil && rb.Resp.Authenticated {
							c.S.Fail("C14", "authenticated-without-proof", "a wrong password for %q was authenticated", user)
						}
					}
				}
			}
			log = append(log, fmt.Sprintf("burst-of-wrong-passwords(%s)", user))
			forcedUser, forcedSteps, forcedSess = user, 2, sn
			c.S.Count("probe.wrong_password_burst")
			continue
		case 13:
			// a correct proof inside an authenticate message with unusual (legal) flags, e.g. key
			// exchange requested but no session key sent; whatever the verifier makes of it, the
			// NEXT message on this session names another user and reuses this user's key
			user := users[c.T.Choose(len(users))].Username
			ch := s.chal
			if ch == nil {
				ch = dummy
			}
			fl := c.T.Choose(len(codec.NTLMOddFlags))
			var ek []byte
			if c.T.Bool(1, 2) {
				ek = c.T.Bytes(16, 4)
			}
			nt, lm, _ := codec.NTLMv2Response(user, db[user], "", ch.ServerChallenge, c.T.Bytes(8, 1), ch.TargetInfo, time.Now())
			what, msg = fmt.Sprintf("auth-correct-odd-flags(%s,flags#%d,sessionkey=%d)", user, fl, len(ek)), b64(codec.NTLMAuthenticateRaw(user, "", "WS", nt, lm, codec.NTLMOddFlags[fl], ek))
			pendingInsider, pendingSess = user, sn
		case 17:
			// (after a burst of failures) the user answers the challenge just given
			user := forcedUser
			ch := s.chal
			if ch == nil {
				ch, what = dummy, "auth-correct-password-without-negotiate("+user+")"
			} else {
				what = "auth-correct-after-burst(" + user + ")"
				if db[user] != "" && s.lastOK && time.Since(s.firstTouch) < 55*time.Second {
					mustAuth = user
				}
			}
			msg = mkType3(user, db[user], "", ch)
		case 14:
			other := pendingInsider
			pendingInsider = ""
			sn = pendingSess
			s = sess[sn]
			named := users[c.T.Choose(len(users))].Username
			ch := s.chal
			if ch == nil {
				ch = dummy
			}
			pw := db[other]
			if pw == "" {
				pw = "insider-guess"
			}
			what, msg = fmt.Sprintf("auth-as(%s)-with-key-of(%s)", named, other), mkType3x(named, other, pw, "", ch)
		case 12:
			// a name that differs from a configured one only in case (NTLMv2 upper-cases the
			// user name when deriving the key, so the proof is computed as for the configured
			// user); such a name is not configured and must not be authenticated
			u := users[c.T.Choose(len(users))].Username
			v := strings.ToUpper(u)
			if c.T.Bool(1, 2) {
				v = strings.ToUpper(u[:1]) + u[1:]
			}
			ch := s.chal
			if ch == nil {
				ch = dummy
			}
			pw := db[u]
			what, msg = fmt.Sprintf("auth-case-variant(%s of %s)", v, u), mkType3(v, pw, "", ch)
		case 11:
			// names one configured user but proves knowledge of ANOTHER configured user's
			// password (an insider who knows only their own password)
			named := users[c.T.Choose(len(users))].Username
			other := users[c.T.Choose(len(users))].Username
			ch := s.chal
			if ch == nil {
				ch = dummy
			}
			pw := db[other]
			if other == named || pw == "" {
				pw = "insider-guess"
			}
			if c.T.Bool(1, 2) {
				what, msg = fmt.Sprintf("auth-as(%s)-with-password-of(%s)", named, other), mkType3(named, pw, "", ch)
			} else {
				what, msg = fmt.Sprintf("auth-as(%s)-with-key-of(%s)", named, other), mkType3x(named, other, pw, "", ch)
			}
		case 8:
			d := time.Duration(c.T.Choose(90)) * time.Second
			c.S.Advance(d)
			log = append(log, fmt.Sprintf("clock+%v", d))
			continue
		case 9:
			node.Restart()
			for _, x := range sess {
				*x = ntlmSess{}
			}
			log = append(log, "auth-node-restart")
			continue
		default:
			// user with an empty configured password, client proves knowledge of ""
			ch := s.chal
			if ch == nil {
				ch = dummy
			}
			what, msg = "auth-empty-configured-password", mkType3("bob", "", "", ch)
		}
		res := node.CallNTLM(sn, msg, 5*time.Second)
		if msg != "" && !s.touched {
			s.touched, s.firstTouch = true, time.Now()
		}
		r := res.Resp
		authd := r != nil && r.Authenticated
		// ---- soundness: authenticated only with proof of the configured password against
		// the challenge most recently issued on this very session
		if authd {
			raw, _ := base64.StdEncoding.DecodeString(msg)
			user, domain, nt, ok := codec.NTLMType3Fields(raw)
			switch {
			case !ok:
				c.S.Fail("C14", "authenticated-undecodable", "session %s: %s was authenticated although it is not an authenticate message", sn, what)
			case s.chal == nil:
				c.S.Fail("C14", "authenticated-without-challenge", "session %s: %s authenticated user %q although no challenge is outstanding on this session (history: %s)", sn, what, r.Username, strings.Join(log, " "))
			case db[user] == "":
				c.S.Fail("C14", "authenticated-unknown-or-empty", "session %s: %s authenticated %q who is unknown or has an empty configured password", sn, what, user)
			case !codec.VerifyNTLMv2(user, db[user], domain, s.chal.ServerChallenge, nt):
				c.S.Fail("C14", "authenticated-without-proof", "session %s: %s authenticated %q but the response does not prove the configured password against this session's challenge", sn, what, user)
			case r.Username != user:
				c.S.Fail("C14", "wrong-username", "session %s: authenticated as %q, the message names %q", sn, r.Username, user)
			}
			c.S.Count("probe.authenticated")
		} else if mustAuth != "" {
			c.S.Fail("C14", "valid-client-refused", "session %s: a client that knows %q's password answered the challenge it was just given and was not authenticated (err=%v; history: %s)", sn, mustAuth, res.Err, strings.Join(log, " "))
		}
		if r != nil && r.Username != "" && !authd {
			c.S.Fail("C14", "username-without-authentication", "session %s: %s returned user name %q without authentication", sn, what, r.Username)
		}
		// ---- model update
		s.lastOK = false
		switch {
		case what == "negotiate" && res.Err == nil && r != nil && r.NtlmMessage != "":
			raw, _ := base64.StdEncoding.DecodeString(r.NtlmMessage)
			ch, err := codec.ParseNTLMChallenge(raw)
			if err != nil {
				c.S.Fail("C14", "bad-challenge", "session %s: negotiate answered by something that is not a challenge message: %v", sn, err)
				break
			}
			if s.chal != nil && string(s.chal.ServerChallenge) == string(ch.ServerChallenge) {
				c.S.Fail("C14", "challenge-reused", "session %s: the same server challenge was issued twice", sn)
			}
			for on, o := range sess {
				if o != s && o.chal != nil && string(o.chal.ServerChallenge) == string(ch.ServerChallenge) {
					c.S.Fail("C14", "challenge-reused", "sessions %s and %s were given the same server challenge", sn, on)
				}
			}
			s.chal, s.issued, s.lastOK = ch, time.Now(), true
			c.S.Count("probe.challenge_issued")
		case what == "negotiate":
			c.S.Fail("C14", "negotiate-unanswered", "session %s: a well-formed negotiate message got no challenge (err=%v)", sn, res.Err)
		case authd:
			s.chal, s.touched = nil, false
		}
		// (after an error the verifier drops the context, so a later one lives longer than
		// this model assumes; keeping the older birth time only narrows the completeness
		// demand and cannot cause a false alarm)
		if strings.HasPrefix(what, "auth-") {
			sent = append(sent, msg)
		}
		log = append(log, fmt.Sprintf("%s:%s=%v", sn[5:8], what, map[bool]string{true: "AUTH", false: "no"}[authd]))
	}
	c.Res.Reach = len(log) >= 4
	c.Res.CaseKey = strings.Join(log, " ")
	c.Samplef("users=%d sessions=%d: %s", len(users), ns, strings.Join(log, " "))
	_ = env.Key32
}
