package scen

import (
	"encoding/json"
	"fmt"
	"net/url"
	"strings"
	"time"

	"simh/codec"
	"simh/env"
)

func init() {
	Register("c15", runC15)
	Register("c02", runC02)
}

// loginAndFile logs a browser in and downloads a connection file.
func loginAndFile(c *Ctx, b *env.Browser, user *env.IdPUser, path string) *env.RDPFile {
	if ok, cb := b.Login("/connect", user); !ok {
		c.Infra("login failed: callback status %d body %.100q", cb.Status, cb.Body)
		return nil
	}
	r := b.Get(path)
	if !gotFile(r) {
		c.Infra("no connection file after login: %d %.100q", r.Status, r.Body)
		return nil
	}
	return env.ParseRDP(r.Body)
}

// longName is a poorly compressible account name of n characters.
func longName(n int) string {
	const abc = "abcdefghijklmnopqrstuvwxyzABCDEFGHIJKLMNOPQRSTUVWXYZ0123456789._-"
	b := make([]byte, n)
	x := uint32(n)*2654435761 + 12345
	for i := range b {
		x = x*1664525 + 1013904223
		b[i] = abc[(x>>16)%uint32(len(abc))]
	}
	return "u" + string(b[1:])
}

// runC15: /tokeninfo with minted, mutated, expired and cross-mode user tokens.
func runC15(c *Ctx) {
	cfg := webConfig(c)
	signMode := c.T.Bool(1, 2)
	cfg.EnableUserToken = true
	cfg.UserEncKey = "userenc-userenc-userenc-userenc-"
	if signMode {
		cfg.UserSigningKey = "usersign-usersign-usersign-users"
	}
	cfg.UsernameTemplate = "{{ username }}||{{ token }}"
	if c.T.Bool(1, 12) {
		// a signing key is configured but is shorter than HS256 allows (1-31 characters): the
		// instance may be unable to mint (the JOSE library refuses the key), but "a signing key is
		// configured" still means that a token without an inner signature under it - encrypted
		// under the right key by anybody who knows only that one - is not a valid user token
		cfg.UserSigningKey = "usersign-usersign-usersign-users"[:1+c.T.Choose(31)]
		if !bootWeb(c, cfg) {
			return
		}
		bs := c.W.NewBrowser("b1", "10.2.0.5:51000")
		if ok, cb := bs.Login("/connect", &env.IdPUser{Sub: "s-alice", Claims: map[string]any{"preferred_username": "alice"}}); !ok {
			c.Infra("login failed: callback status %d body %.100q", cb.Status, cb.Body)
			return
		}
		fr := bs.Get("/connect")
		pl, _ := json.Marshal(map[string]any{"iss": "rdpgw", "sub": "mallory", "exp": time.Now().Add(5 * time.Minute).Unix()})
		hdr := []string{`{"alg":"dir","enc":"A128CBC-HS256","typ":"JWT"}`, `{"alg":"dir","enc":"A128CBC-HS256"}`, `{"alg":"dir","enc":"A128CBC-HS256","cty":"JWT"}`}[c.T.Choose(3)]
		forged := codec.EncryptJWEDirA128CBCHS256([]byte(hdr), pl, []byte(cfg.UserEncKey), c.T.Bytes(16, 2))
		r := c.W.Do(&env.HTTPReq{Name: "ti-unsigned", From: "10.3.0.9:52000", Method: "GET", Path: "/tokeninfo?access_token=" + url.QueryEscape(forged)})
		c.S.Count("probe.short_user_signing_key")
		if r.Status == 200 || strings.Contains(string(r.Body), "mallory") {
			c.S.Fail("C15", "invalid-token-accepted", "a %d-character user-token signing key is configured; a token encrypted under the encryption key WITHOUT an inner signature (for \"mallory\") yields %d %.80q", len(cfg.UserSigningKey), r.Status, r.Body)
			return
		}
		c.Res.Reach = true
		c.Samplef("signing key of %d characters: download -> %d (file=%v); unsigned token under the encryption key -> %d", len(cfg.UserSigningKey), fr.Status, gotFile(fr), r.Status)
		return
	}
	if !bootWeb(c, cfg) {
		return
	}
	// (also names with characters that have no short escape in JSON)
	// very short names over the token alphabet, names in decomposed Unicode spelling, and names so
	// long that the token outgrows 511 characters
	userName := []string{"alice", "bob@corp.test", "administrator", "u", "al\aice", "esc\x1bname", "del\x7fx", "v\vt", "astral\U0001F600\U000E0001x",
		"e", "ey", "eyJ", "J", "re\u0301mi-o\u0308zgu\u0308r", "a\u212bngstro\u0308m\u0323\u0301", longName(170), longName(300)}[c.T.Choose(17)]
	user := &env.IdPUser{Sub: "s-" + userName, Claims: map[string]any{"preferred_username": userName}}
	// history: a moment earlier a different account, whose name differs from this one only in
	// case (or extends it), got a token of its own
	earlier := ""
	if c.T.Bool(1, 3) {
		earlier = []string{strings.ToUpper(userName[:1]) + userName[1:], strings.ToUpper(userName), userName + "2"}[c.T.Choose(3)]
		b0 := c.W.NewBrowser("b0", "10.2.0.4:50999")
		if ok, cb := b0.Login("/connect", &env.IdPUser{Sub: "s-" + earlier, Claims: map[string]any{"preferred_username": earlier}}); !ok {
			c.Infra("login failed: callback status %d body %.100q", cb.Status, cb.Body)
			return
		}
		if fr := b0.Get("/connect"); !gotFile(fr) {
			c.S.Fail("C15", "no-user-token", "no user token is minted for the signed-in user %q: the download answers %d %.80q", earlier, fr.Status, fr.Body)
			return
		}
		c.S.Advance(time.Duration(c.T.Choose(90)) * time.Second)
		c.S.Count("probe.earlier_mint_for_similar_name")
	}
	b := c.W.NewBrowser("b1", "10.2.0.5:51000")
	if ok, cb := b.Login("/connect", user); !ok {
		c.Infra("login failed: callback status %d body %.100q", cb.Status, cb.Body)
		return
	}
	fr := b.Get("/connect")
	if !gotFile(fr) {
		// the session is authenticated and user tokens are enabled: minting one for this user is
		// all that can have failed
		c.S.Fail("C15", "no-user-token", "no user token is minted for the signed-in user %q: the download answers %d %.80q", userName, fr.Status, fr.Body)
		return
	}
	f := env.ParseRDP(fr.Body)
	mintedAt := time.Now()
	parts := strings.SplitN(f.Values["username"], "||", 2)
	if len(parts) != 2 || parts[0] != userName || strings.Count(parts[1], ".") != 4 {
		c.S.Fail("C15", "no-user-token", "username line %.80q does not carry a five-segment user token for %q", f.Values["username"], userName)
		return
	}
	tok := parts[1]
	mode := map[bool]string{false: "encrypt-only", true: "sign-and-encrypt"}[signMode]
	// the user name cannot be read from the token text
	for _, seg := range strings.Split(tok, ".") {
		raw, _ := codec.UnB64(seg)
		if len(userName) > 3 && (strings.Contains(seg, userName) || strings.Contains(string(raw), userName)) {
			c.S.Fail("C15", "user-readable", "the user name %q can be read from the token text", userName)
			return
		}
	}
	ask := func(name, method, query string) *env.HTTPResult {
		return c.W.Do(&env.HTTPReq{Name: name, From: "10.3.0.9:52000", Method: method, Path: "/tokeninfo" + query})
	}
	claimsOf := func(r *env.HTTPResult) map[string]any {
		var m map[string]any
		json.Unmarshal(r.Body, &m)
		return m
	}
	disclosed := func(r *env.HTTPResult) bool {
		return strings.Contains(string(r.Body), userName) && len(userName) > 3 || strings.Contains(string(r.Body), `"sub"`)
	}
	if earlier != "" {
		// a token minted for user U yields subject U
		r0 := ask("ti-own", "GET", "?access_token="+url.QueryEscape(tok))
		if m := claimsOf(r0); r0.Status != 200 || m["sub"] != userName {
			c.S.Fail("C15", "valid-token-refused", "mode=%s: the token minted for %q (after an earlier mint for %q) yields %d sub=%v", map[bool]string{false: "encrypt-only", true: "sign-and-encrypt"}[signMode], userName, earlier, r0.Status, m["sub"])
			return
		}
	}
	if c.T.Bool(1, 6) {
		// a token minted under the same keys by a sibling instance whose clock runs a little
		// ahead (its expiry lies 5 min plus 5-90 s from now): under the configured keys, right
		// issuer, unexpired
		ahead := time.Duration(5+c.T.Choose(86)) * time.Second
		pl, _ := json.Marshal(map[string]any{"iss": "rdpgw", "sub": userName, "exp": time.Now().Add(5*time.Minute + ahead).Unix()})
		var sib string
		if signMode {
			inner := []byte(codec.SignJWS([]byte(`{"alg":"HS256","typ":"JWT"}`), pl, "HS256", []byte(cfg.UserSigningKey)))
			sib = codec.EncryptJWEDirA128CBCHS256([]byte(`{"alg":"dir","enc":"A128CBC-HS256","cty":"JWT","typ":"JWT"}`), inner, []byte(cfg.UserEncKey), c.T.Bytes(16, 2))
		} else {
			sib = codec.EncryptJWEDirA128CBCHS256([]byte(`{"alg":"dir","enc":"A128CBC-HS256","typ":"JWT"}`), pl, []byte(cfg.UserEncKey), c.T.Bytes(16, 2))
		}
		rs := ask("ti-sib", "GET", "?access_token="+url.QueryEscape(sib))
		c.S.Count("probe.token_of_a_sibling_instance_with_clock_ahead")
		if m := claimsOf(rs); rs.Status != 200 || m["sub"] != userName {
			c.S.Fail("C15", "valid-token-refused", "mode=%s: a token under the configured keys, issuer rdpgw, expiring in %v (minted by an instance whose clock is %v ahead) yields %d %.80q", mode, 5*time.Minute+ahead, ahead, rs.Status, rs.Body)
			return
		}
	}
	trial := c.T.Choose(16)
	var r *env.HTTPResult
	kind := ""
	expect := 403
	switch trial {
	case 0, 1:
		kind = "fresh"
		expect = 200
		r = ask("ti", "GET", "?access_token="+url.QueryEscape(tok))
	case 2:
		// clock: five minutes plus the one-minute leeway.  In half of the runs the token is
		// first presented while fresh (a verifier must not remember that verdict)
		if c.T.Bool(1, 2) {
			// first presentation at some age inside its validity (a verifier must not remember
			// that verdict beyond the token's own expiry)
			c.S.Advance(time.Duration(c.T.Choose(350)) * time.Second)
			if r0 := ask("ti0", "GET", "?access_token="+url.QueryEscape(tok)); r0.Status != 200 {
				c.S.Fail("C15", "valid-token-refused", "mode=%s: token refused with %d at age %v", mode, r0.Status, time.Since(mintedAt))
				return
			}
			kind = fmt.Sprintf("first-presented-at-age=%v-then-", time.Since(mintedAt).Round(time.Second))
		}
		d := time.Duration(c.T.Choose(600)) * time.Second
		c.S.Advance(d)
		age := time.Since(mintedAt)
		kind += fmt.Sprintf("age=%v", age)
		if age < 358*time.Second {
			expect = 200
		} else if age < 362*time.Second {
			expect = 0 // don't-care region around exp + leeway
		}
		r = ask("ti", "GET", "?access_token="+url.QueryEscape(tok))
	case 3, 4, 5, 6:
		// single-character mutation of one of the five segments
		segs := strings.Split(tok, ".")
		si := c.T.Choose(5)
		if segs[si] == "" {
			segs[si] = "A"
			kind = fmt.Sprintf("segment %d filled", si)
		} else {
			bs := []byte(segs[si])
			i := c.T.Choose(len(bs))
			old := bs[i]
			bs[i] = "ABCDEFGHIJKLMNOPQRSTUVWXYZabcdefghijklmnopqrstuvwxyz0123456789-_"[c.T.Choose(64)]
			if bs[i] == old {
				bs[i] = 'A' + (old-'A'+1)%26
			}
			kind = fmt.Sprintf("segment %d char %d %c->%c", si, i, old, bs[i])
			// base64 slack: the last character of a segment has unused low bits
			if a, e1 := codec.UnB64(segs[si]); e1 == nil {
				if b2, e2 := codec.UnB64(string(bs)); e2 == nil && string(a) == string(b2) {
					// the same octets in a non-canonical spelling.  For the protected header
					// the authenticated data is, by the letter of JWE, the text as given;
					// go-jose re-encodes the decoded header: not asserted either way
					expect = 200
					if si == 0 {
						expect = 0
					}
					kind += " (same bytes)"
				}
			}
			segs[si] = string(bs)
		}
		r = ask("ti", "GET", "?access_token="+url.QueryEscape(strings.Join(segs, ".")))
	case 7:
		kind = "other-encryption-key"
		pl, _ := json.Marshal(map[string]any{"iss": "rdpgw", "sub": userName, "exp": time.Now().Add(5 * time.Minute).Unix()})
		forged := codec.EncryptJWEDirA128CBCHS256([]byte(`{"alg":"dir","enc":"A128CBC-HS256","cty":"JWT"}`), pl, []byte("another-key-another-key-another-k"), c.T.Bytes(16, 2))
		r = ask("ti", "GET", "?access_token="+url.QueryEscape(forged))
	case 8:
		// right encryption key, but in sign-and-encrypt mode the inner signature is missing /
		// in encrypt-only mode a nested signed token is presented: modes do not mix
		pl, _ := json.Marshal(map[string]any{"iss": "rdpgw", "sub": userName, "exp": time.Now().Add(5 * time.Minute).Unix()})
		var inner []byte
		if signMode {
			kind = "encrypt-only token under the right key, presented to sign-and-encrypt mode"
			inner = pl
		} else {
			kind = "nested signed token presented to encrypt-only mode"
			inner = []byte(codec.SignJWS([]byte(`{"alg":"HS256"}`), pl, "HS256", []byte("usersign-usersign-usersign-users")))
		}
		// (the protected header may or may not announce a nested token: the configured mode
		// decides what is expected inside, not the token)
		hdr := []string{`{"alg":"dir","enc":"A128CBC-HS256","cty":"JWT"}`, `{"alg":"dir","enc":"A128CBC-HS256"}`, `{"alg":"dir","enc":"A128CBC-HS256","typ":"JWT"}`}[c.T.Choose(3)]
		kind += " header " + hdr
		forged := codec.EncryptJWEDirA128CBCHS256([]byte(hdr), inner, []byte(cfg.UserEncKey), c.T.Bytes(16, 2))
		r = ask("ti", "GET", "?access_token="+url.QueryEscape(forged))
		if !signMode {
			// the plaintext is then a JWS string, not a claims object: must be refused
		}
	case 9:
		kind = "wrong issuer / expired under the right keys"
		claims := map[string]any{"iss": "someone", "sub": userName, "exp": time.Now().Add(5 * time.Minute).Unix()}
		if c.T.Bool(1, 2) {
			claims = map[string]any{"iss": "rdpgw", "sub": userName, "exp": time.Now().Add(-10 * time.Minute).Unix()}
		}
		pl, _ := json.Marshal(claims)
		inner := pl
		if signMode {
			inner = []byte(codec.SignJWS([]byte(`{"alg":"HS256"}`), pl, "HS256", []byte(cfg.UserSigningKey)))
		}
		forged := codec.EncryptJWEDirA128CBCHS256([]byte(`{"alg":"dir","enc":"A128CBC-HS256","cty":"JWT"}`), inner, []byte(cfg.UserEncKey), c.T.Bytes(16, 2))
		r = ask("ti", "GET", "?access_token="+url.QueryEscape(forged))
	case 10:
		kind = "plain signed JWT"
		pl, _ := json.Marshal(map[string]any{"iss": "rdpgw", "sub": userName, "exp": time.Now().Add(5 * time.Minute).Unix()})
		key := cfg.UserEncKey
		if signMode {
			key = cfg.UserSigningKey
		}
		r = ask("ti", "GET", "?access_token="+url.QueryEscape(codec.SignJWS([]byte(`{"alg":"HS256"}`), pl, "HS256", []byte(key))))
	case 11:
		kind = "random string"
		r = ask("ti", "GET", "?access_token="+url.QueryEscape(codec.B64(c.T.Bytes(1+c.T.Choose(200), 3))))
	case 12:
		kind, expect = "missing parameter", 400
		r = ask("ti", "GET", []string{"", "?access_token=", "?other=1"}[c.T.Choose(3)])
	case 13:
		kind, expect = "non-GET", 405
		r = ask("ti", []string{"POST", "PUT", "DELETE", "HEAD"}[c.T.Choose(4)], "?access_token="+url.QueryEscape(tok))
	case 14:
		kind = "inner signature under another key"
		if !signMode {
			kind, expect = "fresh", 200
			r = ask("ti", "GET", "?access_token="+url.QueryEscape(tok))
			break
		}
		pl, _ := json.Marshal(map[string]any{"iss": "rdpgw", "sub": userName, "exp": time.Now().Add(5 * time.Minute).Unix()})
		inner := []byte(codec.SignJWS([]byte(`{"alg":"HS256"}`), pl, "HS256", []byte("another-key-another-key-another-k")))
		forged := codec.EncryptJWEDirA128CBCHS256([]byte(`{"alg":"dir","enc":"A128CBC-HS256","cty":"JWT"}`), inner, []byte(cfg.UserEncKey), c.T.Bytes(16, 2))
		r = ask("ti", "GET", "?access_token="+url.QueryEscape(forged))
	default:
		// restart into the other key mode (same encryption key): tokens of one mode are not
		// accepted in the other
		kind = "token of " + mode + " presented after restart into the other mode"
		c.W.GW.Stop()
		cfg2 := *cfg
		if signMode {
			cfg2.UserSigningKey = ""
		} else {
			cfg2.UserSigningKey = "usersign-usersign-usersign-users"
		}
		if !bootWeb(c, &cfg2) {
			return
		}
		r = ask("ti", "GET", "?access_token="+url.QueryEscape(tok))
	}
	c.S.Count("probe.trial." + strings.SplitN(kind, " ", 2)[0])
	switch {
	case expect == 0:
	case expect == 200:
		m := claimsOf(r)
		if r.Status != 200 || m["sub"] != userName {
			c.S.Fail("C15", "valid-token-refused", "mode=%s %s: expected 200 with sub=%q, got %d %.120q", mode, kind, userName, r.Status, r.Body)
		}
	default:
		if r.Status == 200 || disclosed(r) {
			c.S.Fail("C15", "invalid-token-accepted", "mode=%s %s: expected %d without claims, got %d %.120q", mode, kind, expect, r.Status, r.Body)
		} else if r.Status != expect {
			c.S.Fail("C15", "wrong-status", "mode=%s %s: expected status %d, got %d", mode, kind, expect, r.Status)
		}
	}
	c.Res.Reach = true
	c.Res.CaseKey = fmt.Sprintf("%s/%s/%s", mode, userName, kind)
	c.Samplef("mode=%s user=%q trial{%s} -> %d %.60q", mode, userName, kind, r.Status, r.Body)
}

// ---------------------------------------------------------------------------------------

type cookieTrial struct {
	kind   string
	cookie string
	accept bool
	dc     bool // don't-care
}

// runC02: cookie forgeries x IdP conditions x clock between mint and use, each on a fresh
// tunnel of one booted gateway.
func runC02(c *Ctx) {
	tw := PlanTunnels(c, TunOpts{N: 1, Transports: []string{"ws", "legacy"}})
	tw.Cfg.Hosts = append(tw.Cfg.Hosts, "host-a.test:3389")
	tw.Cfg.SmartCardAuth = c.T.Bool(1, 3)
	jwtAT := c.T.Bool(1, 3) // the provider's access tokens are JWTs under its published keys
	// what the provider's opaque tokens look like, how long they are, and what its userinfo
	// answer carries besides the subject
	style := []string{"", "", "b64pad", "vschar"}[c.T.Choose(4)]
	bigAT := c.T.Bool(1, 8)
	if bigAT {
		tw.Cfg.SessionStore = "file"
	}
	uiClaims := c.T.Bool(1, 2)
	tw.Cfg.SplitUserDomain = c.T.Bool(1, 4)
	login := []string{"alice", "alice", "alice@corp.test", "Alice@CORP.test"}[c.T.Choose(4)]
	if !BootTun(c, tw, false) {
		return
	}
	c.W.IdP.JWTAccessTokens = jwtAT
	c.W.IdP.TokenStyle = style
	c.W.IdP.UserinfoClaims = uiClaims
	if bigAT {
		c.W.IdP.TokenPad = 2950 + c.T.Choose(650)
	}
	key := []byte(tw.Cfg.PAASigningKey)
	p0 := tw.Plans[0]
	ip := clientIP(p0.From)
	// a genuine cookie through the real download flow, and a harness-minted twin
	b := c.W.NewBrowser("b1", p0.From)
	user := &env.IdPUser{Sub: "alice", Claims: map[string]any{"preferred_username": login}}
	var f *env.RDPFile
	if bigAT {
		ok, _ := b.Login("/connect", user)
		c.W.IdP.TokenPad = 0
		if !ok {
			// a session store that cannot hold the provider's token: nothing is minted
			c.S.Count("probe.session_too_large_for_store")
			c.Res.Reach = true
			return
		}
		r := b.Get("/connect")
		if !gotFile(r) {
			c.Infra("no connection file after login: %d %.100q", r.Status, r.Body)
			return
		}
		f = env.ParseRDP(r.Body)
		c.S.Count("probe.idp_access_token_of_kilobytes")
	} else if f = loginAndFile(c, b, user, "/connect"); f == nil {
		return
	}
	mintT := time.Now()
	real := f.Values["gatewayaccesstoken"]
	realHost := f.Values["full address"]
	_, rc, ok := codec.SplitJWS(real)
	if !ok || !codec.VerifyHS256(real, key) {
		c.S.Fail("C02", "minted-token-not-hs256", "the token inside the issued file is not an HS256 JWS under the configured key")
		return
	}
	exp, _ := rc["exp"].(float64)
	if int64(exp) > mintT.Unix()+300 {
		c.S.Fail("C02", "expiry-too-long", "a minted token expires %d s after issuance (limit 300)", int64(exp)-mintT.Unix())
		return
	}
	at, _ := rc["accessToken"].(string)
	n := 4 + c.T.Choose(8)
	var log []string
	for i := 0; i < n && c.S.Viol == nil; i++ {
		// IdP condition for this trial
		idpKind := []string{"valid", "valid", "valid", "revoked", "401", "5xx", "garbage", "refuse", "cut", "slow-valid", "slow-revoked"}[c.T.Choose(11)]
		// clock between mint and use
		if c.T.Bool(1, 4) {
			c.S.Advance(time.Duration(c.T.Choose(150)) * time.Second)
		}
		// the client may sit on the open connection between the handshake and the tunnel
		// create; what counts is the time at which the cookie is presented
		stall := time.Duration(0)
		if c.T.Bool(1, 4) {
			stall = time.Duration(20+c.T.Choose(420)) * time.Second
		}
		now := time.Now().Add(stall)
		tr := c02Cookie(c, key, real, realHost, ip, at, int64(exp), now)
		idpOK := idpKind == "valid" || idpKind == "slow-valid"
		c.W.IdP.UserinfoFault = ""
		c.W.IdP.UserinfoDelay = 0
		tokRec := c.W.IdP.Tokens[at]
		switch idpKind {
		case "revoked":
			tokRec.Revoked = true
		case "slow-valid", "slow-revoked":
			// the provider answers, but only after 1-20 s: its answer is what counts
			c.W.IdP.UserinfoDelay = time.Duration(1+c.T.Choose(20)) * time.Second
			tokRec.Revoked = idpKind == "slow-revoked"
		case "valid":
		default:
			c.W.IdP.UserinfoFault = idpKind
		}
		accept := tr.accept && idpOK
		// one fresh tunnel per trial
		name := fmt.Sprintf("k%d", i)
		p := &TunPlan{Name: name, Transport: p0.Transport, From: p0.From, ConnID: fmt.Sprintf("{C02-%d-%d}", c.Res.Seed, i), AllowedHost: realHost, CloseAfter: -1}
		hsCaps := tw.MC.ServerCaps
		if hsCaps == 3 {
			// smart-card and cookie authentication both enabled: the client offers both or one
			hsCaps = []uint16{3, 1, 2}[c.T.Choose(3)]
		}
		p.Pkts = []CPkt{PHandshake(hsCaps, 1, 0)}
		before := c.W.IdP.UserinfoCalls(at)
		tuns := StartTunnels(c, []*TunPlan{p})
		t := tuns[0]
		withSession := c.T.Bool(1, 3)
		if withSession {
			// the tunnel request also carries the session cookie of the signed-in browser
			// (same machine): being signed in at the web side does not replace the access cookie
			t.Client.ExtraHdr = "Cookie: RDPGWSESSION=" + b.Jar["RDPGWSESSION"] + "\r\n"
			t.Client.Opaque = true
		}
		if stall > 0 {
			c.S.Run(func() bool {
				return t.Client.Failed != "" || t.Err != "" || len(t.Client.Packets()) >= 1 || t.Client.Ended()
			}, 3000, 5*time.Second)
			c.S.Advance(stall)
			c.S.Count("fault.client.stall_before_tunnel_create")
		}
		p.Pkts = append(p.Pkts, PTunnelCreate(tr.cookie, accept))
		// lock-step: run until the tunnel-create was answered or the stream ended
		c.S.Run(func() bool {
			return t.Client.Failed != "" || t.Err != "" || len(t.Client.Packets()) >= 2 || t.Client.Ended()
		}, 3000, 5*time.Second+c.W.IdP.UserinfoDelay)
		c.S.Run(nil, 50, 100*time.Millisecond)
		if t.Client.Failed != "" || t.Err != "" {
			c.Infra("transport setup failed: %s %s", t.Client.Failed, t.Err)
			return
		}
		log = append(log, fmt.Sprintf("%s/caps=%d/idp=%s/stall=%ds/web-session=%v/age=%ds->%v", tr.kind, hsCaps, idpKind, int(stall.Seconds()), withSession, now.Unix()-mintT.Unix(), accept))
		c.S.Count("probe.cookie." + strings.SplitN(tr.kind, ":", 2)[0])
		if idpKind != "valid" {
			c.S.Count("fault.idp." + idpKind)
		}
		if !tr.dc {
			CheckTunnel(c, t, tw.MC, "C02")
			if v := c.S.Viol; v != nil {
				if v.Oracle != "C02" {
					v.Sig = v.Oracle + ":" + v.Sig
					v.Oracle = "C02"
				}
				v.Sig = strings.SplitN(tr.kind, ":", 2)[0] + "/idp-" + idpKind + ":" + v.Sig
				v.Msg = fmt.Sprintf("cookie{%s} idp=%s age=%ds model-accepts=%v: %s", tr.kind, idpKind, now.Unix()-mintT.Unix(), accept, v.Msg)
				break
			}
			if accept && c.W.IdP.UserinfoCalls(at) == before && strings.Contains(tr.cookie, ".") {
				// every acceptance must have asked the provider about the embedded token
				c.S.Fail("C02", "accepted-without-userinfo", "cookie{%s} was accepted without a userinfo request for its access token", tr.kind)
			}
		}
		tokRec.Revoked = false
		c.W.IdP.UserinfoFault = ""
		c.W.IdP.UserinfoDelay = 0
		t.Client.CloseAll(false)
	}
	c.Res.Reach = n >= 4
	c.Res.CaseKey = p0.Transport + strings.Join(log, " ")
	c.Samplef("%s: real token exp-iat=%ds; trials: %s", p0.Transport, int64(exp)-mintT.Unix(), strings.Join(log, " "))
}

// c02Cookie draws one cookie and says whether the acceptance model takes it (IdP aside).
func c02Cookie(c *Ctx, key []byte, real, host, ip, at string, realExp int64, now time.Time) cookieTrial {
	hs := func(claims map[string]any, alg string, k []byte, hdr string) string {
		pl, _ := json.Marshal(claims)
		if hdr == "" {
			hdr = fmt.Sprintf(`{"alg":%q}`, alg)
		}
		sa := alg
		if sa != "HS256" && sa != "HS384" && sa != "HS512" && sa != "none" {
			sa = "HS256"
		}
		return codec.SignJWS([]byte(hdr), pl, sa, k)
	}
	base := func() map[string]any {
		return map[string]any{"iss": "rdpgw", "sub": "alice", "exp": now.Add(5 * time.Minute).Unix(), "remoteServer": host, "clientIp": ip, "accessToken": at}
	}
	timeOK := func(exp int64) (bool, bool) {
		lim := exp + 60
		d := now.Unix() - lim
		if d > -2 && d < 2 {
			return false, true
		}
		return now.Unix() < lim, false
	}
	switch c.T.Choose(24) {
	case 23:
		// the genuine cookie with a string terminator and more text behind it: the field as a
		// whole is not a token this gateway minted
		tail := []string{"x", ".AAAA", "=", real, "\x00x", " "}[c.T.Choose(6)]
		return cookieTrial{kind: "real+NUL+tail", cookie: real + "\x00" + tail}
	case 22:
		// under the right key, unexpired, right issuer, but without an access token the provider
		// could honour: the claim is missing, empty or null
		cl := base()
		switch c.T.Choose(3) {
		case 0:
			delete(cl, "accessToken")
		case 1:
			cl["accessToken"] = ""
		default:
			cl["accessToken"] = nil
		}
		return cookieTrial{kind: "no-access-token", cookie: hs(cl, "HS256", key, "")}
	case 0, 1:
		ok, dc := timeOK(realExp)
		return cookieTrial{kind: "real", cookie: real, accept: ok, dc: dc}
	case 2:
		return cookieTrial{kind: "twin", cookie: hs(base(), "HS256", key, ""), accept: true}
	case 3:
		return cookieTrial{kind: "empty", cookie: ""}
	case 4:
		return cookieTrial{kind: "random", cookie: codec.B64(c.T.Bytes(1+c.T.Choose(300), 7))}
	case 5, 6, 7:
		// single-character mutation of header, payload or signature of the real token
		segs := strings.Split(real, ".")
		si := c.T.Choose(3)
		bs := []byte(segs[si])
		i := c.T.Choose(len(bs))
		old := bs[i]
		if c.T.Bool(1, 2) {
			bs[i] ^= byte(1 << uint(c.T.Choose(7))) // single bit
		} else {
			bs[i] = "ABCDEFGHIJKLMNOPQRSTUVWXYZabcdefghijklmnopqrstuvwxyz0123456789-_"[c.T.Choose(64)]
		}
		if bs[i] == old {
			bs[i] = old ^ 1
		}
		segs[si] = string(bs)
		mut := strings.Join(segs, ".")
		// the model verifies the MAC itself: a change in the unused low bits of the last
		// signature character leaves the signature bytes unchanged
		ok := codec.VerifyHS256(mut, key)
		tOK, dc := timeOK(realExp)
		// a change in the unused low bits of a segment's last character leaves the decoded
		// octets unchanged: the same token in a non-canonical spelling.  Libraries differ on
		// whether the MAC input is the text as given or the re-encoded octets; not asserted.
		orig := strings.Split(real, ".")
		if a, e1 := codec.UnB64(orig[si]); e1 == nil {
			if b, e2 := codec.UnB64(segs[si]); e2 == nil && string(a) == string(b) {
				dc = true
			}
		}
		return cookieTrial{kind: fmt.Sprintf("mutate:%s[%d]", []string{"header", "payload", "signature"}[si], i), cookie: mut, accept: ok && tOK, dc: dc}
	case 8:
		return cookieTrial{kind: "other-key", cookie: hs(base(), "HS256", []byte("another-key-another-key-another-k"), "")}
	case 9:
		return cookieTrial{kind: "alg-none", cookie: hs(base(), "none", nil, "")}
	case 10:
		return cookieTrial{kind: "alg-HS384", cookie: hs(base(), "HS384", key, "")}
	case 11:
		return cookieTrial{kind: "alg-HS512", cookie: hs(base(), "HS512", key, "")}
	case 12:
		// header claims RS256 but the MAC is HMAC-SHA256 under the configured key
		return cookieTrial{kind: "alg-RS256-header", cookie: hs(base(), "RS256", key, `{"alg":"RS256"}`)}
	case 13:
		cl := base()
		if c.T.Bool(1, 2) {
			cl["iss"] = "someone-else"
		} else {
			delete(cl, "iss")
		}
		return cookieTrial{kind: "issuer", cookie: hs(cl, "HS256", key, "")}
	case 14:
		cl := base()
		e := now.Unix() - int64(c.T.Choose(1200)) - 30
		cl["exp"] = e
		ok, dc := timeOK(e)
		return cookieTrial{kind: fmt.Sprintf("exp:%+d", e-now.Unix()), cookie: hs(cl, "HS256", key, ""), accept: ok, dc: dc}
	case 15:
		cl := base()
		cl["nbf"] = now.Unix() + 120 + int64(c.T.Choose(1000))
		return cookieTrial{kind: "nbf-future", cookie: hs(cl, "HS256", key, "")}
	case 16:
		cl := base()
		cl["iat"] = now.Unix() + 120 + int64(c.T.Choose(1000))
		return cookieTrial{kind: "iat-future", cookie: hs(cl, "HS256", key, "")}
	case 17:
		// JSON serialisation of a correctly signed token
		segs := strings.Split(hs(base(), "HS256", key, ""), ".")
		js := fmt.Sprintf(`{"payload":%q,"protected":%q,"signature":%q}`, segs[1], segs[0], segs[2])
		return cookieTrial{kind: "json-serialised", cookie: js}
	case 18:
		// nested: a valid token as the payload of a token signed with another key
		inner := hs(base(), "HS256", key, "")
		return cookieTrial{kind: "nested", cookie: codec.SignJWS([]byte(`{"alg":"HS256","cty":"JWT"}`), []byte(inner), "HS256", []byte("another-key-another-key-another-k"))}
	case 19:
		cl := base()
		cl["accessToken"] = "at-unknown"
		return cookieTrial{kind: "unknown-access-token", cookie: hs(cl, "HS256", key, "")}
	case 20:
		// extra header parameters must not matter as long as alg is HS256 and the MAC verifies
		return cookieTrial{kind: "typ-header", cookie: hs(base(), "HS256", key, `{"alg":"HS256","typ":"JWT"}`), accept: true}
	default:
		cl := base()
		delete(cl, "exp")
		// valid MAC but no expiry: only the key holder can build it; not asserted
		return cookieTrial{kind: "no-exp", cookie: hs(cl, "HS256", key, ""), dc: true}
	}
}
