package codec

import (
	"encoding/binary"
	"fmt"
)

// RFC 6455 framing, client side: frames we send are masked, frames we receive must not be.

const (
	WSCont   = 0x0
	WSText   = 0x1
	WSBinary = 0x2
	WSClose  = 0x8
	WSPing   = 0x9
	WSPong   = 0xA
)

// WSFrame builds one masked client frame.
func WSFrame(fin bool, opcode byte, payload []byte, mask [4]byte) []byte {
	var out []byte
	b0 := opcode
	if fin {
		b0 |= 0x80
	}
	out = append(out, b0)
	n := len(payload)
	switch {
	case n < 126:
		out = append(out, 0x80|byte(n))
	case n < 65536:
		out = append(out, 0x80|126)
		out = binary.BigEndian.AppendUint16(out, uint16(n))
	default:
		out = append(out, 0x80|127)
		out = binary.BigEndian.AppendUint64(out, uint64(n))
	}
	out = append(out, mask[:]...)
	for i, c := range payload {
		out = append(out, c^mask[i%4])
	}
	return out
}

// WSMessage sends payload as one binary message split into the given fragment sizes
// (nil = a single frame).
func WSMessage(payload []byte, frags []int, mask [4]byte) []byte {
	if len(frags) == 0 {
		return WSFrame(true, WSBinary, payload, mask)
	}
	var out []byte
	off := 0
	for i, n := range frags {
		if off+n > len(payload) {
			n = len(payload) - off
		}
		op := byte(WSCont)
		if i == 0 {
			op = WSBinary
		}
		last := i == len(frags)-1
		if last {
			n = len(payload) - off
		}
		out = append(out, WSFrame(last, op, payload[off:off+n], mask)...)
		off += n
	}
	return out
}

type WSMsg struct {
	Opcode  byte
	Payload []byte
}

// WSDeframer parses server-to-client frames and reassembles messages.
type WSDeframer struct {
	buf    []byte
	cur    []byte
	curOp  byte
	inMsg  bool
	Bad    string
	Frames int
}

func (d *WSDeframer) Feed(b []byte) []WSMsg {
	d.buf = append(d.buf, b...)
	var out []WSMsg
	for d.Bad == "" {
		if len(d.buf) < 2 {
			break
		}
		b0, b1 := d.buf[0], d.buf[1]
		if b0&0x70 != 0 {
			d.Bad = "reserved bits set in websocket frame"
			break
		}
		if b1&0x80 != 0 {
			d.Bad = "server frame is masked"
			break
		}
		n := int(b1 & 0x7f)
		hdr := 2
		switch n {
		case 126:
			if len(d.buf) < 4 {
				return out
			}
			n = int(binary.BigEndian.Uint16(d.buf[2:]))
			hdr = 4
		case 127:
			if len(d.buf) < 10 {
				return out
			}
			n64 := binary.BigEndian.Uint64(d.buf[2:])
			if n64 > 1<<24 {
				d.Bad = fmt.Sprintf("implausible websocket frame length %d", n64)
				return out
			}
			n = int(n64)
			hdr = 10
		}
		if len(d.buf) < hdr+n {
			break
		}
		payload := d.buf[hdr : hdr+n]
		d.buf = d.buf[hdr+n:]
		d.Frames++
		op := b0 & 0x0f
		fin := b0&0x80 != 0
		switch {
		case op >= 0x8:
			if !fin || n > 125 {
				d.Bad = "malformed control frame"
				break
			}
			out = append(out, WSMsg{op, append([]byte(nil), payload...)})
		case op == WSCont:
			if !d.inMsg {
				d.Bad = "continuation frame without a started message"
				break
			}
			d.cur = append(d.cur, payload...)
			if fin {
				out = append(out, WSMsg{d.curOp, d.cur})
				d.cur, d.inMsg = nil, false
			}
		case op == WSText || op == WSBinary:
			if d.inMsg {
				d.Bad = "new data frame while a fragmented message is open (interleaved writes)"
				break
			}
			if fin {
				out = append(out, WSMsg{op, append([]byte(nil), payload...)})
			} else {
				d.cur, d.curOp, d.inMsg = append([]byte(nil), payload...), op, true
			}
		default:
			d.Bad = fmt.Sprintf("unknown websocket opcode %#x", op)
		}
	}
	return out
}

func (d *WSDeframer) Residue() int { return len(d.buf) }
