package codec

import "errors"

// Minimal DER for KDC-PROXY-MESSAGE (MS-KKDCP 2.2.2), written from X.690.

func derLen(n int) []byte {
	switch {
	case n < 0x80:
		return []byte{byte(n)}
	case n < 0x100:
		return []byte{0x81, byte(n)}
	case n < 0x10000:
		return []byte{0x82, byte(n >> 8), byte(n)}
	default:
		return []byte{0x83, byte(n >> 16), byte(n >> 8), byte(n)}
	}
}

func DerTLV(tag byte, content []byte) []byte {
	out := append([]byte{tag}, derLen(len(content))...)
	return append(out, content...)
}

// KDCProxyMessage encodes SEQUENCE { [0] OCTET STRING, [1] GeneralString OPTIONAL } with
// explicit context tags (the Kerberos modules use EXPLICIT TAGS).
func KDCProxyMessage(kerb []byte, realm string, withRealm bool) []byte {
	body := DerTLV(0xA0, DerTLV(0x04, kerb))
	if withRealm {
		body = append(body, DerTLV(0xA1, DerTLV(0x1B, []byte(realm)))...)
	}
	return DerTLV(0x30, body)
}

// KDCProxyMessageHint is KDCProxyMessage with the optional dclocator-hint [2] INTEGER (hint < 0:
// absent).
func KDCProxyMessageHint(kerb []byte, realm string, withRealm bool, hint int64) []byte {
	body := DerTLV(0xA0, DerTLV(0x04, kerb))
	if withRealm {
		body = append(body, DerTLV(0xA1, DerTLV(0x1B, []byte(realm)))...)
	}
	if hint >= 0 {
		var v []byte
		for x := hint; ; x >>= 8 {
			v = append([]byte{byte(x)}, v...)
			if x>>8 == 0 {
				break
			}
		}
		if v[0]&0x80 != 0 {
			v = append([]byte{0}, v...)
		}
		body = append(body, DerTLV(0xA2, DerTLV(0x02, v))...)
	}
	return DerTLV(0x30, body)
}

// KRBError builds a KRB-ERROR message (RFC 4120 5.9.1) with the given error code.
func KRBError(code byte, realm string) []byte {
	ctx := func(n byte, inner []byte) []byte { return DerTLV(0xA0+n, inner) }
	name := DerTLV(0x30, append(ctx(0, DerTLV(0x02, []byte{2})), ctx(1, DerTLV(0x30, append(DerTLV(0x1B, []byte("krbtgt")), DerTLV(0x1B, []byte(realm))...)))...))
	var body []byte
	body = append(body, ctx(0, DerTLV(0x02, []byte{5}))...)
	body = append(body, ctx(1, DerTLV(0x02, []byte{30}))...)
	body = append(body, ctx(4, DerTLV(0x18, []byte("20000101000000Z")))...)
	body = append(body, ctx(5, DerTLV(0x02, []byte{0}))...)
	body = append(body, ctx(6, DerTLV(0x02, []byte{code}))...)
	body = append(body, ctx(9, DerTLV(0x1B, []byte(realm)))...)
	body = append(body, ctx(10, name)...)
	return DerTLV(0x7E, DerTLV(0x30, body))
}

func derRead(b []byte) (tag byte, content, rest []byte, err error) {
	if len(b) < 2 {
		return 0, nil, nil, errors.New("der: short")
	}
	tag = b[0]
	n := int(b[1])
	off := 2
	if n&0x80 != 0 {
		k := n & 0x7f
		if k == 0 || k > 3 || len(b) < 2+k {
			return 0, nil, nil, errors.New("der: bad length")
		}
		n = 0
		for i := 0; i < k; i++ {
			n = n<<8 | int(b[2+i])
		}
		off = 2 + k
	}
	if len(b) < off+n {
		return 0, nil, nil, errors.New("der: truncated")
	}
	return tag, b[off : off+n], b[off+n:], nil
}

// ParseKDCProxyReply extracts kerb-message from a KDC-PROXY-MESSAGE and demands that
// nothing else is in it.
func ParseKDCProxyReply(b []byte) ([]byte, error) {
	tag, seq, rest, err := derRead(b)
	if err != nil || tag != 0x30 || len(rest) != 0 {
		return nil, errors.New("not a single DER SEQUENCE")
	}
	tag, f0, rest, err := derRead(seq)
	if err != nil || tag != 0xA0 {
		return nil, errors.New("kerb-message [0] missing")
	}
	if len(rest) != 0 {
		return nil, errors.New("unexpected fields after kerb-message")
	}
	tag, msg, r2, err := derRead(f0)
	if err != nil || tag != 0x04 || len(r2) != 0 {
		return nil, errors.New("kerb-message is not an OCTET STRING")
	}
	return msg, nil
}
