// Package codec holds the reference encoders/decoders the oracles use.  They are written
// from the protocol specifications (MS-TSGU, RFC 6455, RFC 7515/7516, MS-NLMP, RFC 4120
// DER framing) and import nothing from the repository under test.
package codec

import (
	"encoding/binary"
	"fmt"
	"unicode/utf16"
)

// MS-TSGU 2.2.5.3.3 HTTP_PACKET_TYPE
const (
	PktHandshakeRequest  = 0x01
	PktHandshakeResponse = 0x02
	PktExtendedAuth      = 0x03
	PktTunnelCreate      = 0x04
	PktTunnelResponse    = 0x05
	PktTunnelAuth        = 0x06
	PktTunnelAuthResp    = 0x07
	PktChannelCreate     = 0x08
	PktChannelResponse   = 0x09
	PktData              = 0x0A
	PktServiceMessage    = 0x0B
	PktReauthMessage     = 0x0C
	PktKeepalive         = 0x0D
	PktCloseChannel      = 0x10
	PktCloseChannelResp  = 0x11
)

// MS-TSGU 2.2.6 return codes used by the properties
const (
	StatusSuccess           = 0x00000000
	StatusAccessDenied      = 0x00000005 // ERROR_ACCESS_DENIED
	StatusInternalError     = 0x800759D8 // E_PROXY_INTERNALERROR
	StatusRAPAccessDenied   = 0x800759DA // E_PROXY_RAP_ACCESSDENIED
	StatusNAPAccessDenied   = 0x800759DB
	StatusCapMismatch       = 0x800759E9 // E_PROXY_CAPABILITYMISMATCH
	StatusCookieBadPacket   = 0x800759F7
	StatusCookieAuthDenied  = 0x800759F8 // E_PROXY_COOKIE_AUTHENTICATION_ACCESS_DENIED
	StatusUnsupportedMethod = 0x800759F9
)

// HTTP_EXTENDED_AUTH bits
const (
	ExtAuthSC       = 0x01
	ExtAuthPAA      = 0x02
	ExtAuthSSPINTLM = 0x04
)

// redirection flags, MS-TSGU 2.2.5.3.7 HTTP_TUNNEL_REDIR_*
const (
	RedirEnableAll        = 0x80000000
	RedirDisableAll       = 0x40000000
	RedirDisableDrive     = 0x01
	RedirDisablePrinter   = 0x02
	RedirDisablePort      = 0x04
	RedirDisableClipboard = 0x08
	RedirDisablePnp       = 0x10
)

// Packet frames body into an HTTP_PACKET_HEADER + body.
func Packet(typ uint16, body []byte) []byte {
	out := make([]byte, 8+len(body))
	binary.LittleEndian.PutUint16(out[0:], typ)
	binary.LittleEndian.PutUint32(out[4:], uint32(8+len(body)))
	copy(out[8:], body)
	return out
}

// PacketRaw frames with an explicit (possibly lying) length field.
func PacketRaw(typ uint16, declared uint32, body []byte) []byte {
	out := make([]byte, 8+len(body))
	binary.LittleEndian.PutUint16(out[0:], typ)
	binary.LittleEndian.PutUint32(out[4:], declared)
	copy(out[8:], body)
	return out
}

func UTF16LE(s string) []byte {
	u := utf16.Encode([]rune(s))
	out := make([]byte, 2*len(u))
	for i, c := range u {
		binary.LittleEndian.PutUint16(out[2*i:], c)
	}
	return out
}

// DecodeUTF16LE decodes with proper surrogate handling; a single trailing NUL is dropped.
func DecodeUTF16LE(b []byte) (string, bool) {
	if len(b)%2 != 0 {
		return "", false
	}
	u := make([]uint16, len(b)/2)
	for i := range u {
		u[i] = binary.LittleEndian.Uint16(b[2*i:])
	}
	s := string(utf16.Decode(u))
	if len(s) > 0 && s[len(s)-1] == 0 {
		s = s[:len(s)-1]
	}
	return s, true
}

func HandshakeRequest(major, minor byte, version uint16, extAuth uint16) []byte {
	b := make([]byte, 6)
	b[0], b[1] = major, minor
	binary.LittleEndian.PutUint16(b[2:], version)
	binary.LittleEndian.PutUint16(b[4:], extAuth)
	return Packet(PktHandshakeRequest, b)
}

// TunnelCreate builds HTTP_TUNNEL_PACKET; cookie=="" and withCookie=false omits the field.
func TunnelCreate(caps uint32, withCookie bool, cookie string) []byte {
	var b []byte
	b = binary.LittleEndian.AppendUint32(b, caps)
	if withCookie {
		b = binary.LittleEndian.AppendUint16(b, 0x1) // HTTP_TUNNEL_PACKET_FIELD_PAA_COOKIE
	} else {
		b = binary.LittleEndian.AppendUint16(b, 0)
	}
	b = binary.LittleEndian.AppendUint16(b, 0) // reserved
	if withCookie {
		c := UTF16LE(cookie + "\x00")
		b = binary.LittleEndian.AppendUint16(b, uint16(len(c)))
		b = append(b, c...)
	}
	return Packet(PktTunnelCreate, b)
}

// TunnelAuth builds HTTP_TUNNEL_AUTH_PACKET (fieldsPresent, cbClientName, clientName).
func TunnelAuth(clientName string) []byte {
	n := UTF16LE(clientName + "\x00")
	var b []byte
	b = binary.LittleEndian.AppendUint16(b, 0) // fieldsPresent
	b = binary.LittleEndian.AppendUint16(b, uint16(len(n)))
	b = append(b, n...)
	return Packet(PktTunnelAuth, b)
}

// ChannelCreate builds HTTP_CHANNEL_PACKET with one resource. nameBytes is the raw UTF-16LE
// resource name (so that hostile encodings can be expressed); declaredLen<0 uses its length.
func ChannelCreate(nameBytes []byte, port uint16, declaredLen int) []byte {
	var b []byte
	b = append(b, 1, 0) // numResources, numAltResources
	b = binary.LittleEndian.AppendUint16(b, port)
	b = binary.LittleEndian.AppendUint16(b, 3) // protocol
	if declaredLen < 0 {
		declaredLen = len(nameBytes)
	}
	b = binary.LittleEndian.AppendUint16(b, uint16(declaredLen))
	b = append(b, nameBytes...)
	return Packet(PktChannelCreate, b)
}

// ChannelCreateAlts builds a channel create with one resource name and up to three alternate
// resource names ([MS-TSGU] 2.2.10.4: numAltResources, pAltResources).
func ChannelCreateAlts(host string, alts []string, port uint16) []byte {
	var b []byte
	b = append(b, 1, byte(len(alts)))
	b = binary.LittleEndian.AppendUint16(b, port)
	b = binary.LittleEndian.AppendUint16(b, 3)
	for _, n := range append([]string{host}, alts...) {
		u := UTF16LE(n + "\x00")
		b = binary.LittleEndian.AppendUint16(b, uint16(len(u)))
		b = append(b, u...)
	}
	return Packet(PktChannelCreate, b)
}

func ChannelCreateHost(host string, port uint16) []byte {
	return ChannelCreate(UTF16LE(host+"\x00"), port, -1)
}

// Data builds HTTP_DATA_PACKET; declared<0 uses len(payload).
func Data(payload []byte, declared int) []byte {
	if declared < 0 {
		declared = len(payload)
	}
	b := binary.LittleEndian.AppendUint16(nil, uint16(declared))
	b = append(b, payload...)
	return Packet(PktData, b)
}

func Keepalive() []byte { return Packet(PktKeepalive, nil) }

func CloseChannel(status uint32) []byte {
	return Packet(PktCloseChannel, binary.LittleEndian.AppendUint32(nil, status))
}

// ---------------------------------------------------------------------------------------
// structural decoder for server packets

type ServerPacket struct {
	Type    uint16
	Len     uint32
	Raw     []byte
	Status  uint32
	HasStat bool
	// handshake
	Major, Minor  byte
	ServerVersion uint16
	ExtAuth       uint16
	// tunnel response
	Fields   uint16
	TunnelID uint32
	Caps     uint32
	// tunnel auth response
	Redir uint32
	Idle  uint32
	// channel response
	ChannelID uint32
	// data
	Payload []byte
	Err     string // structural defect, "" if well-formed
}

// Deframer splits a byte stream of server packets by their length fields.
type Deframer struct {
	buf []byte
	Bad string
}

func (d *Deframer) Feed(b []byte) []ServerPacket {
	d.buf = append(d.buf, b...)
	var out []ServerPacket
	for d.Bad == "" && len(d.buf) >= 8 {
		l := binary.LittleEndian.Uint32(d.buf[4:])
		if l < 8 {
			d.Bad = fmt.Sprintf("server packet with length field %d < 8", l)
			break
		}
		if l > 1<<20 {
			d.Bad = fmt.Sprintf("server packet with implausible length %d", l)
			break
		}
		if uint32(len(d.buf)) < l {
			break
		}
		out = append(out, DecodeServerPacket(d.buf[:l]))
		d.buf = d.buf[l:]
	}
	return out
}

func (d *Deframer) Residue() int { return len(d.buf) }

type rd struct {
	b   []byte
	off int
	err bool
}

func (r *rd) u8() byte {
	if r.off+1 > len(r.b) {
		r.err = true
		return 0
	}
	v := r.b[r.off]
	r.off++
	return v
}
func (r *rd) u16() uint16 {
	if r.off+2 > len(r.b) {
		r.err = true
		return 0
	}
	v := binary.LittleEndian.Uint16(r.b[r.off:])
	r.off += 2
	return v
}
func (r *rd) u32() uint32 {
	if r.off+4 > len(r.b) {
		r.err = true
		return 0
	}
	v := binary.LittleEndian.Uint32(r.b[r.off:])
	r.off += 4
	return v
}
func (r *rd) bytes(n int) []byte {
	if n < 0 || r.off+n > len(r.b) {
		r.err = true
		return nil
	}
	v := r.b[r.off : r.off+n]
	r.off += n
	return v
}
func (r *rd) rest() int { return len(r.b) - r.off }

// DecodeServerPacket decodes one complete packet (header length == len(p)) and checks that
// exactly the optional fields announced by fieldsPresent are encoded, with no trailing bytes.
func DecodeServerPacket(p []byte) ServerPacket {
	sp := ServerPacket{Raw: append([]byte(nil), p...)}
	sp.Type = binary.LittleEndian.Uint16(p[0:])
	sp.Len = binary.LittleEndian.Uint32(p[4:])
	if binary.LittleEndian.Uint16(p[2:]) != 0 {
		sp.Err = "reserved header field not zero"
	}
	r := &rd{b: p[8:]}
	trailing := func() {
		if sp.Err == "" && r.err {
			sp.Err = "packet shorter than its fields"
		}
		if sp.Err == "" && r.rest() != 0 {
			sp.Err = fmt.Sprintf("%d trailing bytes after the announced fields", r.rest())
		}
	}
	switch sp.Type {
	case PktHandshakeResponse:
		sp.Status, sp.HasStat = r.u32(), true
		sp.Major, sp.Minor = r.u8(), r.u8()
		sp.ServerVersion = r.u16()
		sp.ExtAuth = r.u16()
		trailing()
	case PktTunnelResponse:
		sp.ServerVersion = r.u16()
		sp.Status, sp.HasStat = r.u32(), true
		sp.Fields = r.u16()
		r.u16()
		if sp.Fields&0x01 != 0 {
			sp.TunnelID = r.u32()
		}
		if sp.Fields&0x02 != 0 {
			sp.Caps = r.u32()
		}
		if sp.Fields&0x04 != 0 { // SOH_REQ: nonce (20) + cert (len u16 + bytes)
			r.bytes(20)
			r.bytes(int(r.u16()))
		}
		if sp.Fields&0x10 != 0 { // consent message
			r.bytes(int(r.u16()))
		}
		if sp.Fields&^0x17 != 0 && sp.Err == "" {
			sp.Err = fmt.Sprintf("unknown fieldsPresent bits %#x in tunnel response", sp.Fields)
		}
		trailing()
	case PktTunnelAuthResp:
		sp.Status, sp.HasStat = r.u32(), true
		sp.Fields = r.u16()
		r.u16()
		if sp.Fields&0x01 != 0 {
			sp.Redir = r.u32()
		}
		if sp.Fields&0x02 != 0 {
			sp.Idle = r.u32()
		}
		if sp.Fields&0x04 != 0 {
			r.bytes(int(r.u16()))
		}
		if sp.Fields&^0x07 != 0 && sp.Err == "" {
			sp.Err = fmt.Sprintf("unknown fieldsPresent bits %#x in tunnel auth response", sp.Fields)
		}
		trailing()
	case PktChannelResponse:
		sp.Status, sp.HasStat = r.u32(), true
		sp.Fields = r.u16()
		r.u16()
		if sp.Fields&0x01 != 0 {
			sp.ChannelID = r.u32()
		}
		if sp.Fields&0x04 != 0 {
			r.u16()
		}
		if sp.Fields&0x02 != 0 {
			r.bytes(int(r.u16()))
		}
		if sp.Fields&^0x07 != 0 && sp.Err == "" {
			sp.Err = fmt.Sprintf("unknown fieldsPresent bits %#x in channel response", sp.Fields)
		}
		trailing()
	case PktCloseChannelResp:
		// MS-TSGU HTTP_CLOSE_PACKET is header + statusCode.  The gateway under test uses
		// the channel-response layout (status, fieldsPresent, reserved, channel id); both
		// are accepted as long as the packet is consistent with its own mask.
		sp.Status, sp.HasStat = r.u32(), true
		if r.rest() > 0 {
			sp.Fields = r.u16()
			r.u16()
			if sp.Fields&0x01 != 0 {
				sp.ChannelID = r.u32()
			}
			if sp.Fields&0x04 != 0 {
				r.u16()
			}
			if sp.Fields&0x02 != 0 {
				r.bytes(int(r.u16()))
			}
		}
		trailing()
	case PktData:
		n := int(r.u16())
		sp.Payload = r.bytes(n)
		if r.err {
			sp.Err = fmt.Sprintf("data packet declares %d payload bytes but carries %d", n, len(p)-10)
		} else if r.rest() != 0 {
			sp.Err = fmt.Sprintf("data packet carries %d bytes beyond its declared payload of %d", r.rest(), n)
		}
	case PktKeepalive:
		trailing()
	default:
		sp.Err = fmt.Sprintf("packet type %#x is not a server-to-client packet", sp.Type)
	}
	return sp
}

// ResponseTypeFor maps a request packet type to the response type that answers it (0: none).
func ResponseTypeFor(req uint16) uint16 {
	switch req {
	case PktHandshakeRequest:
		return PktHandshakeResponse
	case PktTunnelCreate:
		return PktTunnelResponse
	case PktTunnelAuth:
		return PktTunnelAuthResp
	case PktChannelCreate:
		return PktChannelResponse
	case PktCloseChannel:
		return PktCloseChannelResp
	}
	return 0
}

func PktName(t uint16) string {
	switch t {
	case PktHandshakeRequest:
		return "HANDSHAKE"
	case PktHandshakeResponse:
		return "HANDSHAKE_RESP"
	case PktTunnelCreate:
		return "TUNNEL_CREATE"
	case PktTunnelResponse:
		return "TUNNEL_RESP"
	case PktTunnelAuth:
		return "TUNNEL_AUTH"
	case PktTunnelAuthResp:
		return "TUNNEL_AUTH_RESP"
	case PktChannelCreate:
		return "CHANNEL_CREATE"
	case PktChannelResponse:
		return "CHANNEL_RESP"
	case PktData:
		return "DATA"
	case PktKeepalive:
		return "KEEPALIVE"
	case PktCloseChannel:
		return "CLOSE"
	case PktCloseChannelResp:
		return "CLOSE_RESP"
	}
	return fmt.Sprintf("TYPE_%#x", t)
}

// DecodeOne decodes a transport message that must carry exactly one packet whose header
// length equals the bytes sent.
func DecodeOne(msg []byte) ServerPacket {
	if len(msg) < 8 {
		return ServerPacket{Raw: append([]byte(nil), msg...), Err: fmt.Sprintf("message of %d bytes is shorter than a packet header", len(msg))}
	}
	l := binary.LittleEndian.Uint32(msg[4:])
	if int(l) != len(msg) {
		sp := ServerPacket{Raw: append([]byte(nil), msg...), Type: binary.LittleEndian.Uint16(msg), Len: l}
		sp.Err = fmt.Sprintf("header length %d does not equal the %d bytes sent", l, len(msg))
		return sp
	}
	return DecodeServerPacket(msg)
}

// DecodeUTF16LEKeep decodes without dropping a trailing NUL.
func DecodeUTF16LEKeep(b []byte) (string, bool) {
	if len(b)%2 != 0 {
		return "", false
	}
	u := make([]uint16, len(b)/2)
	for i := range u {
		u[i] = binary.LittleEndian.Uint16(b[2*i:])
	}
	return string(utf16.Decode(u)), true
}
