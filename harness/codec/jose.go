package codec

import (
	"crypto/aes"
	"crypto/cipher"
	"crypto/hmac"
	"crypto/sha256"
	"crypto/sha512"
	"encoding/base64"
	"encoding/json"
	"hash"
	"strings"
)

func B64(b []byte) string { return base64.RawURLEncoding.EncodeToString(b) }

func UnB64(s string) ([]byte, error) { return base64.RawURLEncoding.DecodeString(s) }

// SignJWS builds a compact JWS over arbitrary header and payload JSON with an HMAC family
// algorithm ("HS256", "HS384", "HS512") or "none".
func SignJWS(headerJSON, payloadJSON []byte, alg string, key []byte) string {
	in := B64(headerJSON) + "." + B64(payloadJSON)
	var h func() hash.Hash
	switch alg {
	case "HS256":
		h = sha256.New
	case "HS384":
		h = sha512.New384
	case "HS512":
		h = sha512.New
	case "none":
		return in + "."
	default:
		panic("alg")
	}
	m := hmac.New(h, key)
	m.Write([]byte(in))
	return in + "." + B64(m.Sum(nil))
}

// PAAClaims are the claims of a gateway access cookie as the property states them.
type PAAClaims struct {
	Iss          string `json:"iss,omitempty"`
	Sub          string `json:"sub,omitempty"`
	Exp          *int64 `json:"exp,omitempty"`
	Nbf          *int64 `json:"nbf,omitempty"`
	Iat          *int64 `json:"iat,omitempty"`
	RemoteServer string `json:"remoteServer"`
	ClientIP     string `json:"clientIp"`
	AccessToken  string `json:"accessToken"`
}

func MintPAA(key []byte, c PAAClaims) string {
	p, _ := json.Marshal(c)
	return SignJWS([]byte(`{"alg":"HS256"}`), p, "HS256", key)
}

// SplitJWS returns the decoded header and payload of a compact token (no verification).
func SplitJWS(tok string) (hdr, payload map[string]any, ok bool) {
	parts := strings.Split(tok, ".")
	if len(parts) != 3 {
		return nil, nil, false
	}
	hb, e1 := UnB64(parts[0])
	pb, e2 := UnB64(parts[1])
	if e1 != nil || e2 != nil {
		return nil, nil, false
	}
	if json.Unmarshal(hb, &hdr) != nil || json.Unmarshal(pb, &payload) != nil {
		return nil, nil, false
	}
	return hdr, payload, true
}

// VerifyHS256 checks the MAC of a compact JWS.
func VerifyHS256(tok string, key []byte) bool {
	i := strings.LastIndexByte(tok, '.')
	if i < 0 {
		return false
	}
	sig, err := UnB64(tok[i+1:])
	if err != nil {
		return false
	}
	m := hmac.New(sha256.New, key)
	m.Write([]byte(tok[:i]))
	return hmac.Equal(sig, m.Sum(nil))
}

// EncryptJWEDirA128CBCHS256 builds a compact JWE (alg=dir, enc=A128CBC-HS256) per RFC 7516
// / RFC 7518 §5.2 with a 32-byte key, over arbitrary protected-header JSON and plaintext.
func EncryptJWEDirA128CBCHS256(headerJSON, plaintext, key, iv []byte) string {
	macKey, encKey := key[:16], key[16:32]
	blk, _ := aes.NewCipher(encKey)
	pad := 16 - len(plaintext)%16
	pt := append(append([]byte(nil), plaintext...), make([]byte, pad)...)
	for i := len(plaintext); i < len(pt); i++ {
		pt[i] = byte(pad)
	}
	ct := make([]byte, len(pt))
	cipher.NewCBCEncrypter(blk, iv).CryptBlocks(ct, pt)
	aad := []byte(B64(headerJSON))
	m := hmac.New(sha256.New, macKey)
	m.Write(aad)
	m.Write(iv)
	m.Write(ct)
	al := uint64(len(aad)) * 8
	m.Write([]byte{byte(al >> 56), byte(al >> 48), byte(al >> 40), byte(al >> 32), byte(al >> 24), byte(al >> 16), byte(al >> 8), byte(al)})
	tag := m.Sum(nil)[:16]
	return string(aad) + ".." + B64(iv) + "." + B64(ct) + "." + B64(tag)
}
