package codec

import (
	"bufio"
	"bytes"
	"io"
	"net/http"
	"strconv"
	"strings"
)

// HTTPHead is a parsed response head found at the start of a byte stream.
type HTTPHead struct {
	Status int
	Proto  string
	Header http.Header
	Len    int // bytes consumed by the head, including the blank line
}

// ParseHead returns nil until the blank line has arrived.
func ParseHead(b []byte) (*HTTPHead, bool) {
	i := bytes.Index(b, []byte("\r\n\r\n"))
	if i < 0 {
		return nil, true
	}
	head := string(b[:i])
	lines := strings.Split(head, "\r\n")
	f := strings.SplitN(lines[0], " ", 3)
	if len(f) < 2 || !strings.HasPrefix(f[0], "HTTP/") {
		return nil, false
	}
	st, err := strconv.Atoi(f[1])
	if err != nil {
		return nil, false
	}
	h := &HTTPHead{Status: st, Proto: f[0], Header: http.Header{}, Len: i + 4}
	for _, ln := range lines[1:] {
		k, v, ok := strings.Cut(ln, ":")
		if !ok {
			continue
		}
		h.Header.Add(http.CanonicalHeaderKey(strings.TrimSpace(k)), strings.TrimSpace(v))
	}
	return h, true
}

// FullResponse parses a complete HTTP/1.x response from b (as received until close, or
// until Content-Length is satisfied).  complete=false means more bytes are needed.
func FullResponse(b []byte, eof bool) (resp *http.Response, body []byte, complete bool) {
	h, ok := ParseHead(b)
	if h == nil {
		return nil, nil, !ok
	}
	r, err := http.ReadResponse(bufio.NewReader(bytes.NewReader(b)), nil)
	if err != nil {
		return nil, nil, eof
	}
	body, err = io.ReadAll(r.Body)
	if err != nil && !eof {
		return nil, nil, false
	}
	if r.ContentLength < 0 && !eof && len(r.TransferEncoding) == 0 && r.StatusCode >= 200 && r.StatusCode != 204 && r.StatusCode != 304 {
		return nil, nil, false // body delimited by close
	}
	return r, body, true
}

// Chunk encodes one HTTP/1.1 chunk.
func Chunk(b []byte) []byte {
	out := []byte(strconv.FormatInt(int64(len(b)), 16) + "\r\n")
	out = append(out, b...)
	return append(out, '\r', '\n')
}
