package codec

import (
	"crypto/hmac"
	"crypto/md5"
	"crypto/rc4"
	"encoding/binary"
	"errors"
	"strings"
	"time"

	"golang.org/x/crypto/md4"
)

// MS-NLMP messages and the NTLMv2 computation, written from the specification.

const ntlmSig = "NTLMSSP\x00"

const (
	ntlmUnicode   = 0x00000001
	ntlmReqTarget = 0x00000004
	ntlmSign      = 0x00000010
	ntlmNTLM      = 0x00000200
	ntlmAlways    = 0x00008000
	ntlmESS       = 0x00080000
	ntlmTargetInf = 0x00800000
	ntlmVersion   = 0x02000000
	ntlm128       = 0x20000000
	ntlmKeyExch   = 0x40000000
	ntlm56        = 0x80000000
)

// NTLMNegotiate builds a type-1 message.
func NTLMNegotiate() []byte {
	b := []byte(ntlmSig)
	b = binary.LittleEndian.AppendUint32(b, 1)
	b = binary.LittleEndian.AppendUint32(b, ntlmUnicode|ntlmReqTarget|ntlmSign|ntlmNTLM|ntlmAlways|ntlmESS|ntlmVersion|ntlm128|ntlmKeyExch|ntlm56)
	b = append(b, make([]byte, 16)...)            // empty domain and workstation fields
	b = append(b, 10, 0, 0x61, 0x4a, 0, 0, 0, 15) // version 10.0.19041, NTLM revision 15
	return b
}

type NTLMChallenge struct {
	ServerChallenge []byte
	TargetInfo      []byte
	Flags           uint32
}

// ParseNTLMChallenge parses a type-2 message.
func ParseNTLMChallenge(b []byte) (*NTLMChallenge, error) {
	if len(b) < 48 || string(b[:8]) != ntlmSig || binary.LittleEndian.Uint32(b[8:]) != 2 {
		return nil, errors.New("not an NTLM challenge message")
	}
	c := &NTLMChallenge{ServerChallenge: append([]byte(nil), b[24:32]...), Flags: binary.LittleEndian.Uint32(b[20:])}
	tiLen := int(binary.LittleEndian.Uint16(b[40:]))
	tiOff := int(binary.LittleEndian.Uint32(b[44:]))
	if tiOff+tiLen > len(b) {
		return nil, errors.New("target info outside the message")
	}
	c.TargetInfo = append([]byte(nil), b[tiOff:tiOff+tiLen]...)
	return c, nil
}

func hmacMD5(key, data []byte) []byte {
	m := hmac.New(md5.New, key)
	m.Write(data)
	return m.Sum(nil)
}

// NTOWFv2 per MS-NLMP 3.3.2.
func NTOWFv2(user, password, domain string) []byte {
	h := md4.New()
	h.Write(UTF16LE(password))
	return hmacMD5(h.Sum(nil), UTF16LE(strings.ToUpper(user)+domain))
}

// NTLMv2Response computes NtChallengeResponse and LmChallengeResponse.
func NTLMv2Response(user, password, domain string, serverChallenge, clientChallenge, targetInfo []byte, now time.Time) (nt, lm, sessionBaseKey []byte) {
	key := NTOWFv2(user, password, domain)
	ft := uint64(now.UnixNano()/100) + 116444736000000000
	var temp []byte
	temp = append(temp, 1, 1, 0, 0, 0, 0, 0, 0)
	temp = binary.LittleEndian.AppendUint64(temp, ft)
	temp = append(temp, clientChallenge...)
	temp = append(temp, 0, 0, 0, 0)
	temp = append(temp, targetInfo...)
	temp = append(temp, 0, 0, 0, 0)
	proof := hmacMD5(key, append(append([]byte{}, serverChallenge...), temp...))
	nt = append(append([]byte{}, proof...), temp...)
	lm = append(hmacMD5(key, append(append([]byte{}, serverChallenge...), clientChallenge...)), clientChallenge...)
	return nt, lm, hmacMD5(key, proof)
}

// NTLMAuthenticate builds a type-3 message.
func NTLMAuthenticate(user, domain, workstation string, nt, lm, sessionBaseKey []byte) []byte {
	flags := uint32(ntlmUnicode | ntlmReqTarget | ntlmSign | ntlmNTLM | ntlmAlways | ntlmESS | ntlmTargetInf | ntlmVersion | ntlm128 | ntlmKeyExch | ntlm56)
	random := []byte("0123456789abcdef")
	encKey := make([]byte, 16)
	if c, err := rc4.NewCipher(sessionBaseKey); err == nil {
		c.XORKeyStream(encKey, random)
	}
	return NTLMAuthenticateRaw(user, domain, workstation, nt, lm, flags, encKey)
}

// NTLMOddFlags are negotiate-flag combinations a client may legally put into an authenticate
// message that differ from the usual set (index 0: key exchange without a key-length flag).
var NTLMOddFlags = []uint32{
	ntlmUnicode | ntlmNTLM | ntlmESS | ntlmKeyExch | ntlmTargetInf,
	ntlmUnicode | ntlmNTLM | ntlmESS | ntlmTargetInf,
	ntlmUnicode | ntlmNTLM | ntlmESS | ntlmKeyExch | ntlm56 | ntlmSign,
	ntlmUnicode | ntlmNTLM | ntlmAlways | ntlm128,
}

// NTLMAuthenticateRaw builds an authenticate message with the given flags and encrypted
// random session key field (which may be empty).
func NTLMAuthenticateRaw(user, domain, workstation string, nt, lm []byte, flags uint32, encKey []byte) []byte {
	fields := [][]byte{lm, nt, UTF16LE(domain), UTF16LE(user), UTF16LE(workstation), encKey}
	const hdr = 8 + 4 + 6*8 + 4 + 8 + 16
	b := []byte(ntlmSig)
	b = binary.LittleEndian.AppendUint32(b, 3)
	off := hdr
	for _, f := range fields {
		b = binary.LittleEndian.AppendUint16(b, uint16(len(f)))
		b = binary.LittleEndian.AppendUint16(b, uint16(len(f)))
		b = binary.LittleEndian.AppendUint32(b, uint32(off))
		off += len(f)
	}
	b = binary.LittleEndian.AppendUint32(b, flags)
	b = append(b, 10, 0, 0x61, 0x4a, 0, 0, 0, 15)
	b = append(b, make([]byte, 16)...) // MIC
	for _, f := range fields {
		b = append(b, f...)
	}
	return b
}

// NTLMAuthenticateForm builds an authenticate message in one of the three layouts clients use:
// form 0 with Version and MIC (88-byte fixed part), 1 with Version only (72), 2 with neither (64),
// 3 the oldest layout without session-key field and flags (52).
func NTLMAuthenticateForm(user, domain, workstation string, nt, lm []byte, flags uint32, encKey []byte, form int) []byte {
	fields := [][]byte{lm, nt, UTF16LE(domain), UTF16LE(user), UTF16LE(workstation), encKey}
	hdr := []int{88, 72, 64, 52}[form]
	if form == 3 {
		fields = fields[:5]
	}
	b := []byte(ntlmSig)
	b = binary.LittleEndian.AppendUint32(b, 3)
	off := hdr
	for _, f := range fields {
		b = binary.LittleEndian.AppendUint16(b, uint16(len(f)))
		b = binary.LittleEndian.AppendUint16(b, uint16(len(f)))
		b = binary.LittleEndian.AppendUint32(b, uint32(off))
		off += len(f)
	}
	if form == 2 {
		flags &^= ntlmVersion
	}
	if form < 3 {
		b = binary.LittleEndian.AppendUint32(b, flags)
	}
	if form <= 1 {
		b = append(b, 10, 0, 0x61, 0x4a, 0, 0, 0, 15)
	}
	if form == 0 {
		b = append(b, make([]byte, 16)...)
	}
	for _, f := range fields {
		b = append(b, f...)
	}
	return b
}

// NTLMDefaultFlags is the flag set NTLMAuthenticate uses.
const NTLMDefaultFlags = uint32(ntlmUnicode | ntlmReqTarget | ntlmSign | ntlmNTLM | ntlmAlways | ntlmESS | ntlmTargetInf | ntlmVersion | ntlm128 | ntlmKeyExch | ntlm56)

// NTLMType3Fields extracts user name and NT response from a type-3 message (for the oracle).
func NTLMType3Fields(b []byte) (user, domain string, nt []byte, ok bool) {
	if len(b) < 64 || string(b[:8]) != ntlmSig || binary.LittleEndian.Uint32(b[8:]) != 3 {
		return "", "", nil, false
	}
	get := func(at int) []byte {
		l := int(binary.LittleEndian.Uint16(b[at:]))
		o := int(binary.LittleEndian.Uint32(b[at+4:]))
		if o+l > len(b) || o < 0 {
			return nil
		}
		return b[o : o+l]
	}
	nt = get(20)
	d, _ := DecodeUTF16LEKeep(get(28))
	u, _ := DecodeUTF16LEKeep(get(36))
	return u, d, nt, true
}

// VerifyNTLMv2 recomputes the proof of an NT response against a password and challenge.
func VerifyNTLMv2(user, password, domain string, serverChallenge, nt []byte) bool {
	if len(nt) < 16+28 {
		return false
	}
	key := NTOWFv2(user, password, domain)
	proof := hmacMD5(key, append(append([]byte{}, serverChallenge...), nt[16:]...))
	return hmac.Equal(proof, nt[:16])
}
