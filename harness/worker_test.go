//go:debug randseednop=0
//go:debug randautoseed=0
package simh

import (
	"encoding/json"
	"fmt"
	mrand "math/rand"
	"os"
	"runtime"
	"runtime/debug"
	"strconv"
	"strings"
	"sync/atomic"
	"testing"
	"testing/cryptotest"
	"testing/synctest"
	"time"

	"simh/env"
	"simh/scen"
	"simh/sim"
)

// Job is what the driver hands to a worker process.
type Job struct {
	Prop       string            `json:"prop"`
	Scenario   string            `json:"scenario"`
	Tier       string            `json:"tier"`
	Seeds      []uint64          `json:"seeds"`
	Tape       []uint32          `json:"tape,omitempty"` // replay: applies to Seeds[0]
	Verbose    bool              `json:"verbose"`
	Out        string            `json:"out"`
	Args       map[string]string `json:"args,omitempty"`
	MaxWall    int               `json:"max_wall_s"`
	KeepTape   bool              `json:"keep_tape"`
	RunTimeout int               `json:"run_timeout_s"`
	TapeLog    string            `json:"tape_log,omitempty"`
}

func TestWorker(t *testing.T) {
	jp := os.Getenv("VCHECK_JOB")
	if jp == "" {
		t.Skip("no job")
	}
	b, err := os.ReadFile(jp)
	if err != nil {
		t.Fatal(err)
	}
	var job Job
	if err := json.Unmarshal(b, &job); err != nil {
		t.Fatal(err)
	}
	debug.SetGCPercent(-1) // finalizers of bubbled objects must not run (DESIGN.md §2.4)
	debug.SetMemoryLimit(6 << 30)
	out, err := os.OpenFile(job.Out, os.O_CREATE|os.O_WRONLY|os.O_APPEND, 0o644)
	if err != nil {
		t.Fatal(err)
	}
	defer out.Close()
	sc := scen.Registry[job.Scenario]
	if sc == nil {
		t.Fatalf("unknown scenario %q (have %v)", job.Scenario, scen.Names())
	}
	start := time.Now()
	// watchdog (outside any bubble, real time): a run that makes no progress for too long is
	// a simulator problem (for example a goroutine blocked on a sync.Mutex of a dependency
	// whose holder is parked in the simulated network), reported as HANG, never as a violation.
	var cur atomic.Uint64
	var curStart atomic.Int64
	limit := time.Duration(job.RunTimeout) * time.Second
	if limit <= 0 {
		limit = 40 * time.Second
		if v, err := strconv.Atoi(os.Getenv("SIM_WATCHDOG_MS")); err == nil && v > 0 {
			limit = time.Duration(v) * time.Millisecond // (to exercise the driver's handling of stalls)
		}
	}
	go func() {
		for {
			time.Sleep(500 * time.Millisecond)
			st := curStart.Load()
			if st != 0 && time.Since(time.Unix(0, st)) > limit {
				fmt.Fprintf(out, "HANG %d\n", cur.Load())
				out.Sync()
				buf := make([]byte, 1<<20)
				n := runtime.Stack(buf, true)
				os.Stderr.Write(buf[:n])
				os.Exit(3)
			}
		}
	}()
	for i, seed := range job.Seeds {
		if job.MaxWall > 0 && time.Since(start) > time.Duration(job.MaxWall)*time.Second {
			fmt.Fprintf(out, "STOP %d\n", seed)
			break
		}
		fmt.Fprintf(out, "START %d\n", seed)
		out.Sync()
		cur.Store(seed)
		curStart.Store(time.Now().UnixNano())
		var tape []uint32
		if i == 0 {
			tape = job.Tape
		}
		res := RunOne(t, sc, &job, seed, tape)
		curStart.Store(0)
		if !job.KeepTape && res.Violation == nil {
			res.Tape = nil
		}
		jb, _ := json.Marshal(res)
		fmt.Fprintf(out, "RESULT %s\n", jb)
	}
	fmt.Fprintf(out, "DONE\n")
}

func RunOne(t *testing.T, sc *scen.Scenario, job *Job, seed uint64, tape []uint32) *scen.Result {
	res := &scen.Result{Seed: seed, Scenario: sc.Name, Prop: job.Prop}
	t.Run(fmt.Sprintf("%s-%d", sc.Name, seed), func(t *testing.T) {
		cryptotest.SetGlobalRandom(t, seed)
		mrand.Seed(int64(seed)) // gokrb5 shuffles KDC lists with the global math/rand source
		dir := t.TempDir()
		t.Setenv("TMPDIR", dir)
		defer func() {
			if r := recover(); r != nil {
				msg := fmt.Sprint(r)
				if !strings.Contains(msg, "deadlock") {
					res.Infra = "panic in simulator: " + msg + "\n" + string(debug.Stack())
				}
			}
		}()
		synctest.Test(t, func(t *testing.T) {
			var tp *sim.Tape
			if tape != nil {
				tp = sim.ReplayTape(tape)
			} else {
				tp = sim.NewTape(seed)
			}
			if job.TapeLog != "" {
				if f, err := os.Create(job.TapeLog); err == nil {
					tp.Log = f
					defer f.Close()
				}
			}
			w := env.NewWorld(tp, dir)
			if job.Verbose {
				w.S.J.Keep = 0
				w.S.J.Dump = os.Getenv("SIM_DUMP") != ""
			}
			c := &scen.Ctx{W: w, S: w.S, T: tp, Prop: job.Prop, Tier: job.Tier, Res: res, Arg: job.Args}
			func() {
				defer func() {
					if r := recover(); r != nil {
						res.Infra = fmt.Sprintf("panic in scenario: %v\n%s", r, debug.Stack())
					}
				}()
				sc.Run(c)
			}()
			res.Violation = w.S.Viol
			res.Journal = w.S.J.Hash()
			res.Shape = w.S.J.Shape()
			res.Steps = w.S.Steps
			res.SimMS = w.S.Now().Milliseconds()
			res.Stats = w.S.Stats
			res.TapeLen = tp.Pos()
			res.Tape = tp.Rec
			if res.Violation != nil || res.Infra != "" || job.Verbose {
				if job.Verbose {
					res.Tail = w.S.J.Lines
				} else {
					res.Tail = w.S.J.Tail(60)
				}
			}
		})
	})
	return res
}
