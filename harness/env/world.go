// Package env builds the simulated world around the system under test: the gateway node
// (the repository's real main(), booted from a config file), stub nodes (RDP hosts, OpenID
// provider, KDCs, the PAM table of the auth node) and scheduler-owned clients.
package env

import (
	crand "crypto/rand"
	"crypto/tls"
	"errors"
	"fmt"
	"io"
	"log"
	"math/rand"
	"net"
	"net/http"
	"os"
	"path/filepath"
	"sort"
	"strings"
	"sync"
	"time"

	"simh/sim"

	gwauthconfig "github.com/bolkedebruin/rdpgw/cmd/auth/config"
	"github.com/bolkedebruin/rdpgw/cmd/rdpgw"
	gwconfig "github.com/bolkedebruin/rdpgw/cmd/rdpgw/config"
	"github.com/bolkedebruin/rdpgw/cmd/rdpgw/protocol"
	"github.com/bolkedebruin/rdpgw/simhook"
)

// LogBuf captures the process-wide logger of the system under test.
type LogBuf struct {
	mu    sync.Mutex
	lines []string
	part  []byte
	Echo  bool
}

func (l *LogBuf) Write(p []byte) (int, error) {
	l.mu.Lock()
	defer l.mu.Unlock()
	if l.Echo {
		os.Stderr.Write(p)
	}
	l.part = append(l.part, p...)
	for {
		i := strings.IndexByte(string(l.part), '\n')
		if i < 0 {
			break
		}
		l.lines = append(l.lines, string(l.part[:i]))
		l.part = l.part[i+1:]
	}
	if len(l.lines) > 4000 {
		l.lines = l.lines[len(l.lines)-2000:]
	}
	return len(p), nil
}

func (l *LogBuf) Lines() []string {
	l.mu.Lock()
	defer l.mu.Unlock()
	return append([]string(nil), l.lines...)
}

func (l *LogBuf) Last() string {
	l.mu.Lock()
	defer l.mu.Unlock()
	if len(l.lines) == 0 {
		return ""
	}
	return l.lines[len(l.lines)-1]
}

// Grep returns captured lines containing sub.
func (l *LogBuf) Grep(sub string) []string {
	var out []string
	for _, ln := range l.Lines() {
		if strings.Contains(ln, sub) {
			out = append(out, ln)
		}
	}
	return out
}

type World struct {
	S    *sim.Sim
	T    *sim.Tape
	Dir  string
	Log  *LogBuf
	IdP  *IdP
	GW   *Gateway
	Host map[string]*Host
	gen  int
	// Yields: lock, unlock and pool operations of the gateway are scheduling points in this run
	Yields bool
	// AuthEntropy: behaviour of the secure random source as the authentication helper sees it:
	// "" (healthy), "fail-at-start", "short-reads"
	AuthEntropy string
}

// origRand is the process's real random source; every world starts with it in place.
var origRand = crand.Reader

// EntropyDown makes the secure random source fail (down=true) or work again.
func (w *World) EntropyDown(down bool) {
	if down {
		crand.Reader = failingReader{}
		w.S.Count("fault.entropy.unavailable_during_request")
	} else {
		crand.Reader = origRand
	}
}

// NewWorld must be called inside the bubble, on the scheduler goroutine.
func NewWorld(t *sim.Tape, dir string) *World {
	w := &World{S: sim.New(t), T: t, Dir: dir, Log: &LogBuf{Echo: os.Getenv("SIM_LOG") != ""}, Host: map[string]*Host{}}
	log.SetFlags(0)
	log.SetOutput(w.Log)
	if sim.RaceEnabled {
		// the standard logger takes a mutex around every write, which orders any two
		// goroutines that log and hides races from the detector; a discarding logger
		// returns before taking it
		log.SetOutput(io.Discard)
	}
	crand.Reader = origRand
	simhook.Simulated.Store(true)
	simhook.Gen.Add(1)
	simhook.ResetAll()
	simhook.ResetIDs()
	// in a third of the runs the gateway's goroutines also park at every lock, unlock and
	// pool operation of the repository's code, so that the scheduler interleaves them there
	simhook.OnYield = nil
	if t.Bool(1, 3) {
		w.Yields = true
		simhook.OnYield = func(key string) { w.S.Yield(key) }
	}
	protocol.SimReset()
	gwconfig.SimReset()
	gwauthconfig.SimReset()
	gwmain.SimReset()
	simhook.OnDialTimeout = func(network, addr string, d time.Duration) (net.Conn, error) {
		return w.S.Dial(network, GWAddr, addr, d)
	}
	simhook.OnDial = func(network, addr string) (net.Conn, error) {
		return w.S.Dial(network, GWAddr, addr, 0)
	}
	simhook.OnListen = func(network, addr string) (net.Listener, error) {
		var l *sim.Listener
		w.S.Call("listen "+addr, func() { l = w.S.Listen(addr) })
		return l, nil
	}
	simhook.OnRandSource = func(int64) rand.Source {
		var v int
		w.S.Call("randsource", func() { v = w.T.Choose(1 << 30) })
		return rand.NewSource(int64(v))
	}
	simhook.OnExit = func(code int) {
		w.S.Call("exit", func() {
			if w.GW != nil && !w.GW.Exited {
				w.GW.Exited = true
				w.GW.ExitCode = code
				w.GW.ExitLine = w.Log.Last()
				w.S.Note("gateway exited code=%d: %s", code, w.GW.ExitLine)
			}
		})
	}
	simhook.OnServe = func(srv *http.Server, useTLS bool, cert, key string) error {
		addr := "gw" + srv.Addr
		var l *sim.Listener
		g := w.GW
		w.S.Call("serve "+addr, func() {
			l = w.S.Listen(addr)
			l.Stream = g.StreamIn
			g.Server = srv
			g.Addr = addr
			g.TLS = useTLS
			w.S.Note("gateway serving on %s tls=%v", addr, useTLS)
		})
		if useTLS {
			return srv.ServeTLS(l, cert, key)
		}
		return srv.Serve(l)
	}
	return w
}

const GWAddr = "10.99.0.1:0"

type Gateway struct {
	W        *World
	Cfg      *GWConfig
	Server   *http.Server
	Addr     string
	TLS      bool
	Exited   bool
	ExitCode int
	ExitLine string
	StreamIn bool // deliveries towards the gateway on client connections may re-segment
	Gen      int
}

// GWConfig is the configuration file of a gateway instance, as the administrator writes it.
type GWConfig struct {
	Authentication []string
	TLS            string // "disable" or "" (cert files given)
	CertFile       string
	KeyFile        string
	Port           int
	GatewayAddress string
	Hosts          []string
	HostSelection  string
	SessionKey     string
	SessionEncKey  string
	SessionStore   string
	AuthSocket     string
	AuthTimeout    int
	SendBuf        int
	ReceiveBuf     int

	ProviderURL  string
	ClientID     string
	ClientSecret string

	Keytab   string
	Krb5Conf string

	TokenAuth     *bool
	SmartCardAuth bool
	IdleTimeout   int
	RedirectAll   bool
	DisableRedir  bool
	Clipboard     bool
	Printer       bool
	Port_         bool
	Pnp           bool
	Drive         bool

	PAASigningKey   string
	PAAEncKey       string
	UserEncKey      string
	UserSigningKey  string
	QuerySigningKey string
	QueryIssuer     string
	VerifyClientIP  *bool
	// EntropyFault: crypto/rand.Reader fails while this instance starts
	EntropyFault    bool
	EnableUserToken bool

	UsernameTemplate string
	SplitUserDomain  bool
	NoUsername       bool
	Defaults         string

	OmitKeys map[string]bool // leave these keys out of the file entirely
	Env      map[string]string
}

func q(s string) string { return fmt.Sprintf("%q", s) }

func (c *GWConfig) YAML() string {
	var b strings.Builder
	omit := func(k string) bool { return c.OmitKeys[k] }
	b.WriteString("Server:\n")
	if c.Authentication != nil {
		fmt.Fprintf(&b, " Authentication:\n")
		for _, a := range c.Authentication {
			fmt.Fprintf(&b, "  - %s\n", a)
		}
	}
	if c.TLS != "" {
		fmt.Fprintf(&b, " Tls: %s\n", c.TLS)
	}
	if c.CertFile != "" {
		fmt.Fprintf(&b, " CertFile: %s\n KeyFile: %s\n", q(c.CertFile), q(c.KeyFile))
	}
	fmt.Fprintf(&b, " Port: %d\n", c.Port)
	fmt.Fprintf(&b, " GatewayAddress: %s\n", q(c.GatewayAddress))
	if len(c.Hosts) > 0 {
		b.WriteString(" Hosts:\n")
		for _, h := range c.Hosts {
			fmt.Fprintf(&b, "  - %s\n", q(h))
		}
	}
	if c.HostSelection != "" {
		fmt.Fprintf(&b, " HostSelection: %s\n", c.HostSelection)
	}
	if !omit("SessionKey") {
		fmt.Fprintf(&b, " SessionKey: %s\n", q(c.SessionKey))
	}
	if !omit("SessionEncryptionKey") {
		fmt.Fprintf(&b, " SessionEncryptionKey: %s\n", q(c.SessionEncKey))
	}
	if c.SessionStore != "" {
		fmt.Fprintf(&b, " SessionStore: %s\n", c.SessionStore)
	}
	if c.AuthSocket != "" {
		fmt.Fprintf(&b, " AuthSocket: %s\n", q(c.AuthSocket))
	}
	if c.AuthTimeout != 0 {
		fmt.Fprintf(&b, " BasicAuthTimeout: %d\n", c.AuthTimeout)
	}
	if c.SendBuf != 0 {
		fmt.Fprintf(&b, " SendBuf: %d\n", c.SendBuf)
	}
	if c.ReceiveBuf != 0 {
		fmt.Fprintf(&b, " ReceiveBuf: %d\n", c.ReceiveBuf)
	}
	if c.ProviderURL != "" {
		fmt.Fprintf(&b, "OpenId:\n ProviderUrl: %s\n ClientId: %s\n ClientSecret: %s\n", q(c.ProviderURL), q(c.ClientID), q(c.ClientSecret))
	}
	if c.Keytab != "" || c.Krb5Conf != "" {
		fmt.Fprintf(&b, "Kerberos:\n")
		if c.Keytab != "" {
			fmt.Fprintf(&b, " Keytab: %s\n", q(c.Keytab))
		}
		if c.Krb5Conf != "" {
			fmt.Fprintf(&b, " Krb5Conf: %s\n", q(c.Krb5Conf))
		}
	}
	b.WriteString("Caps:\n")
	if c.TokenAuth != nil {
		fmt.Fprintf(&b, " TokenAuth: %v\n", *c.TokenAuth)
	}
	fmt.Fprintf(&b, " SmartCardAuth: %v\n IdleTimeout: %d\n RedirectAll: %v\n DisableRedirect: %v\n", c.SmartCardAuth, c.IdleTimeout, c.RedirectAll, c.DisableRedir)
	fmt.Fprintf(&b, " EnableClipboard: %v\n EnablePrinter: %v\n EnablePort: %v\n EnablePnp: %v\n EnableDrive: %v\n", c.Clipboard, c.Printer, c.Port_, c.Pnp, c.Drive)
	b.WriteString("Security:\n")
	if !omit("PAATokenSigningKey") {
		fmt.Fprintf(&b, " PAATokenSigningKey: %s\n", q(c.PAASigningKey))
	}
	if !omit("PAATokenEncryptionKey") && c.PAAEncKey != "" {
		fmt.Fprintf(&b, " PAATokenEncryptionKey: %s\n", q(c.PAAEncKey))
	}
	if c.EnableUserToken {
		fmt.Fprintf(&b, " EnableUserToken: true\n")
	}
	if !omit("UserTokenEncryptionKey") && c.UserEncKey != "" {
		fmt.Fprintf(&b, " UserTokenEncryptionKey: %s\n", q(c.UserEncKey))
	}
	if c.UserSigningKey != "" {
		fmt.Fprintf(&b, " UserTokenSigningKey: %s\n", q(c.UserSigningKey))
	}
	if c.QuerySigningKey != "" {
		fmt.Fprintf(&b, " QueryTokenSigningKey: %s\n", q(c.QuerySigningKey))
	}
	if c.QueryIssuer != "" {
		fmt.Fprintf(&b, " QueryTokenIssuer: %s\n", q(c.QueryIssuer))
	}
	if c.VerifyClientIP != nil {
		fmt.Fprintf(&b, " VerifyClientIp: %v\n", *c.VerifyClientIP)
	}
	b.WriteString("Client:\n")
	if c.UsernameTemplate != "" {
		fmt.Fprintf(&b, " UsernameTemplate: %s\n", q(c.UsernameTemplate))
	}
	fmt.Fprintf(&b, " SplitUserDomain: %v\n NoUsername: %v\n", c.SplitUserDomain, c.NoUsername)
	if c.Defaults != "" {
		fmt.Fprintf(&b, " Defaults: %s\n", q(c.Defaults))
	}
	return b.String()
}

func Bool(b bool) *bool { return &b }

const Key32 = "0123456789abcdef0123456789abcdef"

// BaseConfig is an OpenID + token-auth gateway without TLS, the configuration most tunnel
// scenarios start from.
func BaseConfig() *GWConfig {
	return &GWConfig{
		Authentication: []string{"openid"},
		TLS:            "disable",
		Port:           8443,
		GatewayAddress: "gw.test:8443",
		Hosts:          []string{"host-a:3389"},
		HostSelection:  "roundrobin",
		SessionKey:     "sessionkey-sessionkey-sessionkey",
		SessionEncKey:  "sessionenc-sessionenc-sessionenc",
		ProviderURL:    IdPIssuer,
		ClientID:       "rdpgw",
		ClientSecret:   "secret",
		TokenAuth:      Bool(true),
		PAASigningKey:  "paasigningkey-paasigningkey-paas",
	}
}

// Boot starts a gateway instance from cfg and runs the simulation until it serves or exits.
func (w *World) Boot(cfg *GWConfig) *Gateway {
	w.gen++
	g := &Gateway{W: w, Cfg: cfg, Gen: w.gen}
	w.GW = g
	path := filepath.Join(w.Dir, fmt.Sprintf("rdpgw-%d.yaml", w.gen))
	if err := os.WriteFile(path, []byte(cfg.YAML()), 0o600); err != nil {
		panic(err)
	}
	// environment variables of this instance
	for _, kv := range os.Environ() {
		if strings.HasPrefix(kv, "RDPGW_") {
			os.Unsetenv(strings.SplitN(kv, "=", 2)[0])
		}
	}
	var ks []string
	for k := range cfg.Env {
		ks = append(ks, k)
	}
	sort.Strings(ks)
	for _, k := range ks {
		os.Setenv(k, cfg.Env[k])
	}
	os.Args = []string{"rdpgw", "-c", path}
	gwconfig.SimReset()
	gwmain.SimReset()
	w.S.Note("boot gateway gen=%d", w.gen)
	if cfg.EntropyFault {
		// fault: the system's secure random source is unavailable while the gateway starts
		old := crand.Reader
		crand.Reader = failingReader{}
		defer func() { crand.Reader = old }()
		w.S.Count("fault.entropy.unavailable_at_boot")
	}
	go func() {
		gwmain.Main()
		// Main returned without serving (ListenAndServe error path handled by Fatal)
	}()
	w.S.Run(func() bool { return g.Exited || (g.Server != nil && w.S.Listening(g.Addr)) }, 20000, 30*time.Second)
	return g
}

type failingReader struct{}

func (failingReader) Read(p []byte) (int, error) {
	return 0, errors.New("getrandom: resource temporarily unavailable")
}

// Stop closes the instance's server: listeners and connections are closed as a process exit
// would, and in-memory state of the package-level caches is dropped.
func (g *Gateway) Stop() {
	w := g.W
	if g.Server != nil {
		srv := g.Server
		done := false
		go func() {
			srv.Close()
			w.S.Call("stopped", func() { done = true })
		}()
		w.S.Run(func() bool { return done }, 20000, 10*time.Second)
	}
	protocol.SimReset()
	w.S.Count("fault.node.restart")
	w.S.Note("gateway gen=%d stopped", g.Gen)
}

// ClientTLS returns a TLS client configuration trusting the simulated gateway certificate.
func ClientTLS() *tls.Config {
	return &tls.Config{InsecureSkipVerify: true, ServerName: "gw.test"}
}
