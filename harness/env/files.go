package env

import (
	"crypto/ecdsa"
	"crypto/elliptic"
	"crypto/rand"
	"crypto/x509"
	"crypto/x509/pkix"
	"encoding/pem"
	"fmt"
	"math/big"
	"os"
	"path/filepath"
	"sort"
	"strings"
	"time"

	"github.com/bolkedebruin/gokrb5/v8/keytab"
)

// WriteTLSFiles creates a self-signed certificate for gw.test in the run directory.
func (w *World) WriteTLSFiles() (certFile, keyFile string) {
	priv, err := ecdsa.GenerateKey(elliptic.P256(), rand.Reader)
	if err != nil {
		panic(err)
	}
	tmpl := &x509.Certificate{
		SerialNumber: big.NewInt(1),
		Subject:      pkix.Name{CommonName: "gw.test"},
		DNSNames:     []string{"gw.test"},
		NotBefore:    time.Now().Add(-time.Hour),
		NotAfter:     time.Now().Add(365 * 24 * time.Hour),
		KeyUsage:     x509.KeyUsageDigitalSignature,
		ExtKeyUsage:  []x509.ExtKeyUsage{x509.ExtKeyUsageServerAuth},
	}
	der, err := x509.CreateCertificate(rand.Reader, tmpl, tmpl, &priv.PublicKey, priv)
	if err != nil {
		panic(err)
	}
	kb, _ := x509.MarshalECPrivateKey(priv)
	certFile = filepath.Join(w.Dir, "server.pem")
	keyFile = filepath.Join(w.Dir, "key.pem")
	os.WriteFile(certFile, pem.EncodeToMemory(&pem.Block{Type: "CERTIFICATE", Bytes: der}), 0o600)
	os.WriteFile(keyFile, pem.EncodeToMemory(&pem.Block{Type: "EC PRIVATE KEY", Bytes: kb}), 0o600)
	return
}

// WriteKeytab creates a keytab with one AES256 entry for the service principal.
func (w *World) WriteKeytab(principal, realm, password string) string {
	kt := keytab.New()
	if err := kt.AddEntry(principal, realm, password, time.Now(), 1, 18); err != nil {
		panic(err)
	}
	b, err := kt.Marshal()
	if err != nil {
		panic(err)
	}
	p := filepath.Join(w.Dir, "rdpgw.keytab")
	os.WriteFile(p, b, 0o600)
	return p
}

// WriteKrb5Conf writes a krb5.conf naming the KDCs of each realm.
func (w *World) WriteKrb5Conf(defaultRealm string, kdcs map[string][]string) string {
	var sb strings.Builder
	fmt.Fprintf(&sb, "[libdefaults]\n  default_realm = %s\n  dns_lookup_kdc = false\n  dns_lookup_realm = false\n\n[realms]\n", defaultRealm)
	var realms []string
	for r := range kdcs {
		realms = append(realms, r)
	}
	sort.Strings(realms)
	for _, r := range realms {
		fmt.Fprintf(&sb, "  %s = {\n", r)
		for _, k := range kdcs[r] {
			fmt.Fprintf(&sb, "    kdc = %s\n", k)
		}
		sb.WriteString("  }\n")
	}
	p := filepath.Join(w.Dir, "krb5.conf")
	os.WriteFile(p, []byte(sb.String()), 0o600)
	return p
}
