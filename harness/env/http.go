package env

import (
	"bufio"
	"crypto/tls"
	"fmt"
	"io"
	"net/http"
	"sort"
	"strings"
	"time"

	"simh/codec"
	"simh/sim"
)

// HTTPResult is what a scheduler-owned HTTP/1.1 client saw for one request.
type HTTPResult struct {
	Status  int
	Header  http.Header
	Body    []byte
	Raw     []byte
	EOF     bool // the server closed the connection
	RST     bool
	Timeout bool // no complete response within the bound
	Err     string
	Seq     uint64
}

// HTTPReq describes a request of a scheduler-owned client.
type HTTPReq struct {
	Name    string // connection name in the journal
	From    string // client address ip:port
	Method  string
	Path    string
	Header  [][2]string
	Body    []byte
	RawHead string // if set, sent verbatim instead of the generated head
	Chunked bool
	Auto    bool // transparent link (not journaled, no tape)
	// HalfClose: the client shuts down the sending half of its connection once the request is
	// written (legal HTTP/1.x) and goes on waiting for the response
	HalfClose bool
}

func (r *HTTPReq) Bytes() []byte {
	if r.RawHead != "" {
		return append([]byte(r.RawHead), r.Body...)
	}
	var sb strings.Builder
	m := r.Method
	if m == "" {
		m = "GET"
	}
	fmt.Fprintf(&sb, "%s %s HTTP/1.1\r\n", m, r.Path)
	hasHost, hasConn := false, false
	for _, kv := range r.Header {
		fmt.Fprintf(&sb, "%s: %s\r\n", kv[0], kv[1])
		if strings.EqualFold(kv[0], "Host") {
			hasHost = true
		}
		if strings.EqualFold(kv[0], "Connection") {
			hasConn = true
		}
	}
	if !hasHost {
		sb.WriteString("Host: gw.test\r\n")
	}
	if !hasConn {
		sb.WriteString("Connection: close\r\n")
	}
	if r.Body != nil && !r.Chunked {
		fmt.Fprintf(&sb, "Content-Length: %d\r\n", len(r.Body))
	}
	sb.WriteString("\r\n")
	return append([]byte(sb.String()), r.Body...)
}

// Do performs one request on a fresh connection and runs the simulation until the response
// is complete, the server closes, or the bound expires.
func (w *World) Do(r *HTTPReq) *HTTPResult {
	res := &HTTPResult{}
	connect := w.S.Connect
	if r.Auto {
		connect = w.S.ConnectAuto
	}
	e, err := connect(r.Name, r.From, w.GW.Addr)
	if err != nil {
		res.Err = err.Error()
		return res
	}
	e.Opaque, e.Peer.Opaque = true, true
	e.OnEOF = func(rst bool) { res.EOF, res.RST = true, rst }
	e.Send(r.Bytes())
	complete := func() bool {
		resp, body, ok := codec.FullResponse(e.Recv, res.EOF)
		if ok && resp != nil {
			res.Status, res.Header, res.Body = resp.StatusCode, resp.Header, body
			return true
		}
		return res.EOF
	}
	why := w.S.Run(complete, 20000, 40*time.Second)
	res.Raw = append([]byte(nil), e.Recv...)
	res.Seq = w.S.Seq
	if why != sim.StopCond {
		complete()
		if res.Status == 0 {
			res.Timeout = true
		}
	}
	if !e.Closed {
		e.Shut()
	}
	return res
}

// Metrics fetches /metrics and returns the rdpgw_* gauge values.
func (w *World) Metrics(from string) map[string]float64 {
	w.gen++
	r := w.Do(&HTTPReq{Name: fmt.Sprintf("metrics%d", w.gen), From: from, Path: "/metrics", Auto: true})
	out := map[string]float64{}
	for _, ln := range strings.Split(string(r.Body), "\n") {
		if strings.HasPrefix(ln, "rdpgw_") {
			var k string
			var v float64
			if _, err := fmt.Sscanf(ln, "%s %g", &k, &v); err == nil {
				out[k] = v
			}
		}
	}
	return out
}

func FmtMetrics(m map[string]float64) string {
	var ks []string
	for k := range m {
		ks = append(ks, k)
	}
	sort.Strings(ks)
	var sb strings.Builder
	for _, k := range ks {
		fmt.Fprintf(&sb, "%s=%g ", k, m[k])
	}
	return sb.String()
}

// DoTLS performs one request over TLS with a goroutine-backed client (crypto/tls needs a
// blocking net.Conn) and runs the simulation until the response head (and, for ordinary
// responses, the body) has been read.  headOnly stops after the head: upgrade and legacy
// accept responses have no delimited body.
func (w *World) DoTLS(r *HTTPReq, headOnly bool) *HTTPResult {
	p := w.StartTLS(r, headOnly)
	w.S.Run(func() bool { return p.Done }, 40000, 60*time.Second)
	if !p.Done {
		p.Res.Timeout = true
	}
	return p.Res
}

// PendingTLS is a TLS request in flight (goroutine-backed client).
type PendingTLS struct {
	Res  *HTTPResult
	Done bool
}

// StartTLS starts a request over TLS without waiting for the response; several may be in
// flight at once.  Done is set on the scheduler goroutine.
func (w *World) StartTLS(r *HTTPReq, headOnly bool) *PendingTLS {
	p := &PendingTLS{Res: &HTTPResult{}}
	res := p.Res
	raw := r.Bytes()
	go func() {
		var out HTTPResult
		defer func() { w.S.Call("tlsdone "+r.Name, func() { *res, p.Done = out, true }) }()
		c, err := w.S.Dial("tcp", r.From, w.GW.Addr, 0)
		if err != nil {
			out.Err = err.Error()
			return
		}
		defer c.Close()
		if e, ok := c.(*sim.End); ok {
			w.S.Call("opaque "+r.Name, func() { e.Opaque, e.Peer.Opaque = true, true })
		}
		tc := tls.Client(c, ClientTLS())
		if err := tc.Handshake(); err != nil {
			out.Err = "tls: " + err.Error()
			return
		}
		if _, err := tc.Write(raw); err != nil {
			out.Err = err.Error()
			return
		}
		br := bufio.NewReader(tc)
		resp, err := http.ReadResponse(br, nil)
		if err != nil {
			out.Err = err.Error()
			out.EOF = true
			return
		}
		out.Status, out.Header = resp.StatusCode, resp.Header
		if !headOnly && resp.StatusCode != 101 {
			out.Body, _ = io.ReadAll(resp.Body)
		}
	}()
	return p
}

// Pending is a request in flight on a scheduler-owned connection.
type Pending struct {
	Res  *HTTPResult
	e    *sim.End
	done bool
}

// Start sends a request without waiting; several may be in flight at once.
func (w *World) Start(r *HTTPReq) *Pending {
	p := &Pending{Res: &HTTPResult{}}
	e, err := w.S.Connect(r.Name, r.From, w.GW.Addr)
	if err != nil {
		p.Res.Err, p.done = err.Error(), true
		return p
	}
	p.e = e
	e.Opaque, e.Peer.Opaque = true, true
	e.OnEOF = func(rst bool) { p.Res.EOF, p.Res.RST = true, rst }
	e.Send(r.Bytes())
	if r.HalfClose {
		e.ShutWrite()
	}
	return p
}

// Done reports (and records) completion of the response.
func (p *Pending) Done(w *World) bool {
	if p.done {
		return true
	}
	resp, body, ok := codec.FullResponse(p.e.Recv, p.Res.EOF)
	if ok && resp != nil {
		p.Res.Status, p.Res.Header, p.Res.Body = resp.StatusCode, resp.Header, body
		p.Res.Seq, p.done = w.S.Seq, true
	} else if p.Res.EOF {
		p.done = true
	}
	return p.done
}

// WaitAll runs the simulation until every pending request has a response, the server closed,
// or the bound expired.
func (w *World) WaitAll(ps []*Pending, bound time.Duration) {
	w.S.Run(func() bool {
		all := true
		for _, p := range ps {
			if !p.Done(w) {
				all = false
			}
		}
		return all
	}, 40000, bound)
	for _, p := range ps {
		if !p.Done(w) && p.Res.Status == 0 {
			p.Res.Timeout = true
		}
		if p.e != nil && !p.e.Closed {
			p.e.Shut()
		}
	}
}
