package env

import (
	"bytes"
	"crypto/ed25519"
	"crypto/rand"
	"encoding/base64"
	"encoding/json"
	"errors"
	"fmt"
	"io"
	"net/http"
	"net/url"
	"strings"
	"time"

	"simh/codec"
)

const IdPIssuer = "http://idp.test/realms/rdpgw"

// IdP is a stub OpenID provider reached through http.DefaultTransport.  All of its state is
// touched on the scheduler goroutine only (requests are marshalled through Sim.Call).
type IdP struct {
	w      *World
	Issuer string
	priv   ed25519.PrivateKey
	pub    ed25519.PublicKey
	other  ed25519.PrivateKey // a key the gateway does not know (bad signature fault)

	Codes  map[string]*IdPUser // authorisation codes
	Tokens map[string]*IdPToken
	seq    int

	// fault knobs (one-shot unless stated)
	TokenFault    string // "", refuse, noidtoken, badsig, wrongiss, wrongaud, expired, noclaim, 5xx, garbage
	UserinfoFault string // "", 401, 5xx, garbage, refuse, cut
	Down          bool   // every request fails at connection level
	// JWTAccessTokens: access tokens are signed JWTs instead of opaque strings
	JWTAccessTokens bool
	// ExpiredBy: how long ago the ID tokens of the "expired" fault expired (default 10 min)
	ExpiredBy time.Duration
	// TokenPad: access tokens are that many characters longer
	TokenPad int
	// UserinfoDelay: the userinfo endpoint takes that long to answer (it does answer)
	UserinfoDelay time.Duration
	// TokenStyle: spelling of opaque access tokens: "" (plain), "b64pad" (base64 with '=' padding),
	// "vschar" (other printable characters RFC 6749 allows in an access token)
	TokenStyle string
	// UserinfoClaims: the userinfo answer also carries the user's name claims (most providers do)
	UserinfoClaims bool
	// AzpOnWrongAud: ID tokens of the "wrongaud" fault carry azp = this client
	AzpOnWrongAud bool
	// NoExpiresIn: the token response leaves out the optional expires_in member
	NoExpiresIn bool
	// ClockAhead: the provider's clock runs that much ahead of the gateway's (iat/exp of ID tokens)
	ClockAhead time.Duration

	Reqs []IdPReq
}

type IdPUser struct {
	Sub    string
	Claims map[string]any // extra ID-token claims (preferred_username, upn, ...)
}

type IdPToken struct {
	Sub     string
	Revoked bool
	Claims  map[string]any
}

type IdPReq struct {
	Seq    uint64
	Method string
	Path   string
	Token  string
	Status int
}

func (w *World) NewIdP() *IdP {
	pub, priv, _ := ed25519.GenerateKey(rand.Reader)
	_, other, _ := ed25519.GenerateKey(rand.Reader)
	p := &IdP{w: w, Issuer: IdPIssuer, priv: priv, pub: pub, other: other, Codes: map[string]*IdPUser{}, Tokens: map[string]*IdPToken{}}
	w.IdP = p
	http.DefaultTransport = p
	return p
}

// IssueAccessToken registers an access token the provider honours for sub.
func (p *IdP) IssueAccessToken(sub string) string {
	p.seq++
	at := fmt.Sprintf("at-%d-%s", p.seq, sub)
	if p.JWTAccessTokens {
		// a provider whose access tokens are JWTs under its published keys (audience: the
		// resource server); whether one is still honoured is for the provider to say
		hdr := []byte(`{"alg":"EdDSA","kid":"k1","typ":"at+jwt"}`)
		pl, _ := json.Marshal(map[string]any{"iss": p.Issuer, "sub": sub, "aud": "rdpgw-resource", "jti": fmt.Sprintf("at-%d", p.seq),
			"iat": time.Now().Unix(), "exp": time.Now().Add(time.Hour).Unix()})
		in := codec.B64(hdr) + "." + codec.B64(pl)
		at = in + "." + codec.B64(ed25519.Sign(p.priv, []byte(in)))
	}
	switch p.TokenStyle {
	case "b64pad":
		at = base64.StdEncoding.EncodeToString([]byte(at))
		for !strings.HasSuffix(at, "=") {
			at = base64.StdEncoding.EncodeToString([]byte("x" + at))
		}
	case "vschar":
		at = "v1!" + at + "*$(~)"
	}
	if p.TokenPad > 0 {
		// providers that pack group memberships into the access token issue kilobytes
		at += "." + strings.Repeat("g0123456789abcdef", p.TokenPad/17+1)[:p.TokenPad]
	}
	p.Tokens[at] = &IdPToken{Sub: sub}
	return at
}

func (p *IdP) NewCode(u *IdPUser) string {
	p.seq++
	c := fmt.Sprintf("code-%d", p.seq)
	p.Codes[c] = u
	return c
}

func (p *IdP) UserinfoCalls(token string) int {
	n := 0
	for _, r := range p.Reqs {
		if strings.HasSuffix(r.Path, "/userinfo") && r.Token == token {
			n++
		}
	}
	return n
}

type cutBody struct {
	r   io.Reader
	err error
}

func (c *cutBody) Read(p []byte) (int, error) {
	n, err := c.r.Read(p)
	if err == io.EOF {
		return n, c.err
	}
	return n, err
}
func (c *cutBody) Close() error { return nil }

func (p *IdP) RoundTrip(r *http.Request) (*http.Response, error) {
	var body []byte
	if r.Body != nil {
		body, _ = io.ReadAll(r.Body)
		r.Body.Close()
	}
	var resp *http.Response
	var rerr error
	tok := strings.TrimPrefix(r.Header.Get("Authorization"), "Bearer ")
	p.w.S.Call("idp "+r.Method+" "+r.URL.Path+" "+tok+" "+string(body), func() {
		resp, rerr = p.handle(r, body, tok)
		st := 0
		if resp != nil {
			st = resp.StatusCode
		}
		p.Reqs = append(p.Reqs, IdPReq{p.w.S.Seq, r.Method, r.URL.Path, tok, st})
		p.w.S.Note("idp %s %s -> %d %v", r.Method, r.URL.Path, st, rerr)
	})
	return resp, rerr
}

func jsonResp(r *http.Request, status int, v any) *http.Response {
	b, _ := json.Marshal(v)
	return &http.Response{StatusCode: status, Status: fmt.Sprintf("%d %s", status, http.StatusText(status)), Proto: "HTTP/1.1", ProtoMajor: 1, ProtoMinor: 1,
		Header: http.Header{"Content-Type": {"application/json"}}, Body: io.NopCloser(bytes.NewReader(b)), ContentLength: int64(len(b)), Request: r}
}

func textResp(r *http.Request, status int, ct, s string) *http.Response {
	return &http.Response{StatusCode: status, Status: fmt.Sprintf("%d %s", status, http.StatusText(status)), Proto: "HTTP/1.1", ProtoMajor: 1, ProtoMinor: 1,
		Header: http.Header{"Content-Type": {ct}}, Body: io.NopCloser(strings.NewReader(s)), ContentLength: int64(len(s)), Request: r}
}

func (p *IdP) idToken(u *IdPUser, fault string) string {
	now := time.Now()
	if p.ClockAhead != 0 {
		// clock skew: the provider stamps its tokens by its own clock
		now = now.Add(p.ClockAhead)
		p.w.S.Count("fault.clock.idp_ahead_of_gateway")
	}
	claims := map[string]any{"iss": p.Issuer, "aud": "rdpgw", "sub": u.Sub, "iat": now.Unix(), "exp": now.Add(5 * time.Minute).Unix()}
	for k, v := range u.Claims {
		claims[k] = v
	}
	key := p.priv
	switch fault {
	case "badsig":
		key = p.other
	case "wrongiss":
		claims["iss"] = "http://evil.test/realms/rdpgw"
	case "wrongaud":
		claims["aud"] = "someone-else"
		if p.AzpOnWrongAud {
			// (the token was issued TO another client; that it names this client as authorised
			// party does not make this client its audience)
			claims["azp"] = "rdpgw"
		}
	case "expired":
		ago := 10 * time.Minute
		if p.ExpiredBy > 0 {
			ago = p.ExpiredBy
		}
		claims["exp"] = now.Add(-ago).Unix()
		claims["iat"] = now.Add(-ago - 10*time.Minute).Unix()
	case "noclaim":
		for _, k := range []string{"preferred_username", "unique_name", "upn", "username"} {
			delete(claims, k)
		}
	}
	hdr := []byte(`{"alg":"EdDSA","kid":"k1","typ":"JWT"}`)
	pl, _ := json.Marshal(claims)
	in := codec.B64(hdr) + "." + codec.B64(pl)
	sig := ed25519.Sign(key, []byte(in))
	return in + "." + codec.B64(sig)
}

func (p *IdP) handle(r *http.Request, body []byte, tok string) (*http.Response, error) {
	if p.Down {
		p.w.S.Count("fault.idp.down")
		return nil, errors.New("dial tcp idp.test:80: connect: connection refused")
	}
	path := r.URL.Path
	switch {
	case strings.HasSuffix(path, "/.well-known/openid-configuration"):
		return jsonResp(r, 200, map[string]any{
			"issuer": p.Issuer, "authorization_endpoint": p.Issuer + "/auth", "token_endpoint": p.Issuer + "/token",
			"jwks_uri": p.Issuer + "/jwks", "userinfo_endpoint": p.Issuer + "/userinfo",
			"id_token_signing_alg_values_supported": []string{"EdDSA"},
		}), nil
	case strings.HasSuffix(path, "/jwks"):
		return jsonResp(r, 200, map[string]any{"keys": []any{map[string]any{
			"kty": "OKP", "crv": "Ed25519", "kid": "k1", "use": "sig", "alg": "EdDSA", "x": codec.B64(p.pub)}}}), nil
	case strings.HasSuffix(path, "/token"):
		form, _ := url.ParseQuery(string(body))
		f := p.TokenFault
		p.TokenFault = ""
		if f != "" {
			p.w.S.Count("fault.idp." + f)
		}
		u, ok := p.Codes[form.Get("code")]
		if ok {
			delete(p.Codes, form.Get("code")) // codes are single-use
		}
		if !ok || f == "refuse" {
			return jsonResp(r, 400, map[string]any{"error": "invalid_grant"}), nil
		}
		if f == "5xx" {
			return textResp(r, 503, "text/plain", "unavailable"), nil
		}
		if f == "garbage" {
			return textResp(r, 200, "application/json", "{not json"), nil
		}
		at := p.IssueAccessToken(u.Sub)
		p.Tokens[at].Claims = u.Claims
		out := map[string]any{"access_token": at, "token_type": "Bearer", "expires_in": 300}
		if p.NoExpiresIn {
			delete(out, "expires_in")
		}
		if f != "noidtoken" {
			out["id_token"] = p.idToken(u, f)
		}
		return jsonResp(r, 200, out), nil
	case strings.HasSuffix(path, "/userinfo"):
		f := p.UserinfoFault
		if f != "" {
			p.w.S.Count("fault.idp.userinfo." + f)
		}
		if d := p.UserinfoDelay; d > 0 {
			p.w.S.Count("fault.idp.userinfo.slow")
			select {
			case <-time.After(d):
			case <-r.Context().Done():
				return nil, r.Context().Err()
			}
		}
		switch f {
		case "refuse":
			return nil, errors.New("dial tcp idp.test:80: connect: connection refused")
		case "5xx":
			return textResp(r, 500, "text/plain", "boom"), nil
		case "401":
			return textResp(r, 401, "text/plain", "invalid_token"), nil
		case "garbage":
			return textResp(r, 200, "application/json", "\x00\x01not json"), nil
		case "cut":
			resp := textResp(r, 200, "application/json", `{"sub":"tr`)
			resp.Body = &cutBody{strings.NewReader(`{"sub":"tr`), io.ErrUnexpectedEOF}
			resp.ContentLength = 100
			return resp, nil
		}
		t, ok := p.Tokens[tok]
		if !ok || t.Revoked || tok == "" {
			return textResp(r, 401, "text/plain", "invalid_token"), nil
		}
		ui := map[string]any{"sub": t.Sub}
		if p.UserinfoClaims {
			for k, v := range t.Claims {
				ui[k] = v
			}
		}
		return jsonResp(r, 200, ui), nil
	}
	return textResp(r, 404, "text/plain", "not found"), nil
}
