package env

import (
	"encoding/base64"
	"fmt"
	"time"

	"github.com/bolkedebruin/gokrb5/v8/client"
	krbconfig "github.com/bolkedebruin/gokrb5/v8/config"
	"github.com/bolkedebruin/gokrb5/v8/iana/nametype"
	"github.com/bolkedebruin/gokrb5/v8/keytab"
	"github.com/bolkedebruin/gokrb5/v8/messages"
	"github.com/bolkedebruin/gokrb5/v8/spnego"
	"github.com/bolkedebruin/gokrb5/v8/types"
	"github.com/jcmturner/gofork/encoding/asn1"
)

// KrbTicketOpts describes a service ticket the harness forges (it plays the KDC: it knows the
// service key because it generated the keytab).
type KrbTicketOpts struct {
	User      string
	Realm     string
	Service   string // e.g. "HTTP/gw.test"
	KeyPass   string // password the service key is derived from (the keytab's, or a wrong one)
	ExpiredBy time.Duration
}

// NegotiateHeader builds "Negotiate <base64 SPNEGO NegTokenInit with a Kerberos AP-REQ>".
func NegotiateHeader(o KrbTicketOpts) (string, error) {
	kt := keytab.New()
	sname := types.NewPrincipalName(nametype.KRB_NT_SRV_INST, o.Service)
	if err := kt.AddEntry(o.Service, o.Realm, o.KeyPass, time.Now(), 1, 18); err != nil {
		return "", err
	}
	cname := types.NewPrincipalName(nametype.KRB_NT_PRINCIPAL, o.User)
	now := time.Now()
	start, end := now.Add(-time.Minute), now.Add(time.Hour)
	if o.ExpiredBy > 0 {
		start, end = now.Add(-2*time.Hour), now.Add(-o.ExpiredBy)
	}
	tkt, key, err := messages.NewTicket(cname, o.Realm, sname, o.Realm, asn1.BitString{Bytes: make([]byte, 4), BitLength: 32}, kt, 18, 1, start, start, end, end.Add(time.Hour))
	if err != nil {
		return "", fmt.Errorf("forge ticket: %w", err)
	}
	cl := client.NewWithPassword(o.User, o.Realm, "unused", krbconfig.New())
	nti, err := spnego.NewNegTokenInitKRB5(cl, tkt, key)
	if err != nil {
		return "", err
	}
	st := spnego.SPNEGOToken{Init: true, NegTokenInit: nti}
	b, err := st.Marshal()
	if err != nil {
		return "", err
	}
	return "Negotiate " + base64.StdEncoding.EncodeToString(b), nil
}
