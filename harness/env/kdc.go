package env

import (
	"fmt"
	"time"

	"simh/sim"
)

// KDC is a stub Kerberos KDC endpoint (one address, one protocol).
type KDC struct {
	// DripGap: pause between the pieces of a dripped reply
	DripGap time.Duration
	// Cuts, PieceGap: where and how far apart a "reply-pieces" reply is cut
	Cuts     []int
	PieceGap time.Duration
	drips   int

	W        *World
	Addr     string
	Proto    string // "tcp" or "udp"
	Behave   string // reply-close, reply-open, partial, close, silent
	Reply    []byte
	Got      [][]byte // what each connection received
	GotSeq   []uint64
	Accepted int
}

// AddKDC registers a KDC stub.  "refuse" is expressed by not registering one.
func (w *World) AddKDC(proto, addr, behave string, reply []byte) *KDC {
	k := &KDC{W: w, Addr: addr, Proto: proto, Behave: behave, Reply: reply}
	key := addr
	if proto == "udp" {
		key = "udp:" + addr
	}
	w.S.ListenOwned(key, func(e *sim.End) {
		idx := k.Accepted
		k.Accepted++
		k.Got = append(k.Got, nil)
		k.GotSeq = append(k.GotSeq, 0)
		answered := false
		if k.Behave == "deaf" {
			// accepts the connection and never reads from it: its receive window is closed from
			// the start, so whoever writes to it stays blocked in that write
			e.Peer.HoldWrites, e.Peer.KeepHold = true, true
			w.S.Count("fault.kdc.never_reads")
		}
		e.OnRecv = func(b []byte) {
			k.Got[idx] = append(k.Got[idx], b...)
			k.GotSeq[idx] = w.S.Seq
			if answered {
				return
			}
			answered = true
			reply := k.ReplyFor(k.Got[idx])
			switch k.Behave {
			case "reply-close":
				e.Send(reply)
				e.Shut()
			case "reply-open":
				e.Send(reply)
			case "partial":
				e.Send(reply[:len(reply)/2])
			case "partial-close":
				e.Send(reply[:len(reply)/2])
				e.Shut()
			case "close":
				e.Shut()
			case "reply-krb-error":
				e.Send(reply)
				e.Shut()
			case "garbage":
				// something that is not a framed Kerberos reply at all
				e.Send(k.Reply)
				if len(k.Reply)%2 == 0 {
					e.Shut()
				}
			case "close-then-silent":
				// a KDC that is being restarted: the first connection is dropped without a byte,
				// later ones are accepted by something that does not answer
				if idx == 0 {
					e.Shut()
				}
			case "silent", "deaf":
			case "reply-pieces":
				// a complete, timely reply that travels in several TCP segments (cut at k.Cuts,
				// per mille of its length), milliseconds apart
				k.piecesStart(e, reply)
			case "drip":
				// the reply comes in pieces, each a few seconds after the previous one
				k.dripStart(e, reply)
			}
			w.S.Count("probe.kdc." + k.Proto + "." + k.Behave)
		}
	})
	return k
}

func (k *KDC) String() string {
	return fmt.Sprintf("%s/%s/%s(conns=%d)", k.Proto, k.Addr, k.Behave, k.Accepted)
}

// ReplyFor is the reply this KDC gives to a request: its fixed body followed by the last
// bytes of the request, so that replies to different requests are distinguishable.  Over
// TCP the reply carries the 4-byte length prefix.
func (k *KDC) ReplyFor(req []byte) []byte {
	tag := req
	if len(tag) > 12 {
		tag = tag[len(tag)-12:]
	}
	if k.Behave == "reply-krb-error" {
		return append([]byte{}, k.Reply...) // a well-formed KRB-ERROR, as it is
	}
	if k.Proto == "udp" {
		return append(append([]byte{}, k.Reply...), tag...)
	}
	body := append(append([]byte{}, k.Reply[4:]...), tag...)
	out := []byte{byte(len(body) >> 24), byte(len(body) >> 16), byte(len(body) >> 8), byte(len(body))}
	return append(out, body...)
}

// piecesStart sends a reply cut at k.Cuts (per mille of its length; a cut of 1-3 is taken as
// that many bytes: inside the length prefix), PieceGap apart, and leaves the connection open.
func (k *KDC) piecesStart(e *sim.End, reply []byte) {
	w := k.W
	var offs []int
	last := 0
	for _, c := range k.Cuts {
		o := len(reply) * c / 1000
		if c <= 3 {
			o = c
		}
		if o > last && o < len(reply) {
			offs = append(offs, o)
			last = o
		}
	}
	offs = append(offs, len(reply))
	sent, from := 0, 0
	next := time.Now()
	k.drips++
	w.S.AddActor(fmt.Sprintf("K pieces %s %s %d", k.Proto, k.Addr, k.drips), func() bool {
		return sent < len(offs) && !e.Closed && !time.Now().Before(next)
	}, func() {
		e.Send(reply[from:offs[sent]])
		from = offs[sent]
		sent++
		next = time.Now().Add(k.PieceGap)
		w.S.Count("probe.kdc.reply_piece")
	})
}

// dripStart sends a reply in 6-10 pieces with DripGap between them (an actor per connection:
// the scheduler lets simulated time pass when nothing else is enabled).
func (k *KDC) dripStart(e *sim.End, reply []byte) {
	w := k.W
	n := 6 + len(reply)%5
	if n > len(reply) {
		n = len(reply)
	}
	sent := 0
	next := time.Now().Add(k.DripGap)
	k.drips++
	w.S.AddActor(fmt.Sprintf("K drip %s %s %d", k.Proto, k.Addr, k.drips), func() bool {
		return sent < n && !e.Closed && !time.Now().Before(next)
	}, func() {
		a, b := len(reply)*sent/n, len(reply)*(sent+1)/n
		e.Send(reply[a:b])
		sent++
		next = time.Now().Add(k.DripGap)
		if sent == n {
			e.Shut()
		}
		w.S.Count("probe.kdc.drip_piece")
	})
}
