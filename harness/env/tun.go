package env

import (
	"encoding/base64"
	"fmt"
	"strings"
	"time"

	"simh/codec"
	"simh/sim"
)

// Host is a stub RDP host: a scheduler-owned listener whose connections record what they
// receive and play a script of writes.
type Host struct {
	W     *World
	Addr  string
	Conns []*HostConn
	// Script is the list of writes each accepted connection plays (copied per connection).
	Script [][]byte
	// CloseAfterScript makes the host close once the script is done (EOF towards the gateway).
	CloseAfterScript bool
	Silent           bool // accept but never write
	// ResetAfter >= 0: the host resets the connection after that many script writes (fault)
	ResetAfter int
	L          *sim.Listener
}

type HostConn struct {
	H       *Host
	End     *sim.End
	Recv    []byte
	RecvSeq []uint64 // scheduler sequence number at each delivery
	next    int
	EOF     bool // the gateway closed (or reset) its side
	RST     bool
	EOFSeq  uint64
	AccSeq  uint64
	Hold    bool // fault: stop playing the script
	// Ended: the host itself ended the connection ("eof" after its script, "rst" in the middle)
	Ended string
}

func (w *World) AddHost(addr string, script [][]byte) *Host {
	h := &Host{W: w, Addr: addr, Script: script, ResetAfter: -1}
	w.Host[addr] = h
	h.L = w.S.ListenOwned(addr, func(e *sim.End) {
		hc := &HostConn{H: h, End: e, AccSeq: w.S.Seq}
		h.Conns = append(h.Conns, hc)
		idx := len(h.Conns) - 1
		e.OnRecv = func(b []byte) {
			hc.Recv = append(hc.Recv, b...)
			hc.RecvSeq = append(hc.RecvSeq, w.S.Seq)
		}
		e.OnEOF = func(rst bool) { hc.EOF, hc.RST, hc.EOFSeq = true, rst, w.S.Seq }
		w.S.AddActor(fmt.Sprintf("H %s %d", addr, idx), func() bool {
			return !hc.Hold && !h.Silent && !e.Closed && (hc.next < len(h.Script) || (h.CloseAfterScript && hc.next == len(h.Script)))
		}, func() {
			if h.ResetAfter >= 0 && hc.next >= h.ResetAfter {
				e.Reset()
				hc.Ended = "rst"
				w.S.Count("fault.host.rst")
				return
			}
			if hc.next < len(h.Script) {
				e.Send(h.Script[hc.next])
				hc.next++
				return
			}
			hc.next++
			e.Shut()
			hc.Ended = "eof"
			w.S.Count("fault.host.eof")
		})
	})
	return h
}

// Down takes the host off the network: further connection attempts are refused.
func (h *Host) Down() {
	h.W.S.Unlisten(h.Addr)
	delete(h.W.Host, h.Addr)
	h.W.S.Count("fault.host.down")
}

func (hc *HostConn) ScriptDone() bool { return hc.next >= len(hc.H.Script) }

// Sent is the byte stream the host has produced so far on this connection.
func (hc *HostConn) Sent() []byte {
	var out []byte
	for i := 0; i < hc.next && i < len(hc.H.Script); i++ {
		out = append(out, hc.H.Script[i]...)
	}
	return out
}

// ---------------------------------------------------------------------------------------

// TunEvent is something the tunnel client observed, stamped with the scheduler sequence.
type TunEvent struct {
	Seq  uint64
	Kind string // "http", "pkt", "eof", "rst", "bad"
	Pkt  codec.ServerPacket
	Text string
	Conn string // "ws", "out", "in"
}

type SentPkt struct {
	Seq   uint64
	Index int
	Bytes []byte
}

// TunClient is a scheduler-owned RDP gateway client over websocket or the legacy pair.
type TunClient struct {
	W         *World
	Name      string
	Transport string // "ws" or "legacy"
	From      string // ip:port of the client
	ConnID    string
	XFF       string
	AuthHdr   string // Authorization header value ("" = none)
	// AuthFn, when set, yields the Authorization value per connection (Kerberos tokens must
	// not be replayed, so each connection needs a fresh one)
	AuthFn   func(role string) string
	ExtraHdr string
	// Opaque: the connections carry bytes that legitimately differ between executions of the
	// same schedule (a session cookie): journaled without content
	Opaque bool
	GWAddr string

	WS, Out, In *sim.End
	head        map[string]*codec.HTTPHead
	raw         map[string][]byte
	seedLeft    int
	wsd         codec.WSDeframer
	def         codec.Deframer

	Events []TunEvent
	Sent   []SentPkt
	mask   uint32

	// NTLM credentials: when NTLMUser is set every connection first performs the NTLM
	// exchange (type 1 -> 401 challenge -> type 3 on the same connection)
	NTLMUser, NTLMPass, NTLMDomain string
	NTLMScheme                     string // "NTLM" (default) or "Negotiate"
	ntlmStage                      map[string]int
	reqFor                         map[string]func(auth string) []byte
	Challenges                     map[string]*codec.NTLMChallenge

	Ready  bool // transport established (101 / both legacy channels accepted + preamble sent)
	Failed string
	// InOrder: for legacy, open IN before OUT (fault order.inout)
	preambleSent bool
}

func (w *World) NewTunClient(name, transport, from, connID string) *TunClient {
	return &TunClient{W: w, Name: name, Transport: transport, From: from, ConnID: connID, GWAddr: w.GW.Addr,
		head: map[string]*codec.HTTPHead{}, raw: map[string][]byte{}, ntlmStage: map[string]int{}, reqFor: map[string]func(string) []byte{}, Challenges: map[string]*codec.NTLMChallenge{}}
}

func (c *TunClient) ev(kind, conn, text string) {
	c.Events = append(c.Events, TunEvent{Seq: c.W.S.Seq, Kind: kind, Text: text, Conn: conn})
}

func (c *TunClient) hdrs(auth string) string {
	h := "Host: gw.test\r\nRdg-Connection-Id: " + c.ConnID + "\r\nUser-Agent: MS-RDGateway/1.0\r\n"
	if c.XFF != "" {
		h += "X-Forwarded-For: " + c.XFF + "\r\n"
	}
	if auth == "" {
		auth = c.AuthHdr
	}
	if auth != "" {
		h += "Authorization: " + auth + "\r\n"
	}
	return h + c.ExtraHdr
}

func (c *TunClient) scheme() string {
	if c.NTLMScheme != "" {
		return c.NTLMScheme
	}
	return "NTLM"
}

// start sends the first request of a role: with NTLM credentials that is the type-1 leg.
func (c *TunClient) start(role string, e *sim.End, mk func(auth string) []byte) {
	c.reqFor[role] = mk
	if c.NTLMUser != "" {
		c.ntlmStage[role] = 1
		e.Send(mk(c.scheme() + " " + base64.StdEncoding.EncodeToString(codec.NTLMNegotiate())))
		return
	}
	if c.AuthFn != nil {
		e.Send(mk(c.AuthFn(role)))
		return
	}
	e.Send(mk(""))
}

func (c *TunClient) endFor(role string) *sim.End {
	switch role {
	case "ws":
		return c.WS
	case "out":
		return c.Out
	}
	return c.In
}

// OpenWS connects and sends the websocket upgrade request.
func (c *TunClient) OpenWS() error {
	e, err := c.W.S.Connect(c.Name+".ws", c.From, c.GWAddr)
	if err != nil {
		return err
	}
	c.WS = e
	if c.Opaque {
		e.Opaque, e.Peer.Opaque = true, true
	}
	c.attach(e, "ws")
	key := base64.StdEncoding.EncodeToString([]byte(fmt.Sprintf("%-16.16s", c.Name+c.ConnID)))
	c.start("ws", e, func(auth string) []byte {
		return []byte("RDG_OUT_DATA /remoteDesktopGateway/ HTTP/1.1\r\n" + c.hdrs(auth) +
			"Connection: Upgrade\r\nUpgrade: websocket\r\nSec-WebSocket-Version: 13\r\nSec-WebSocket-Key: " + key + "\r\n\r\n")
	})
	return nil
}

// OpenOut / OpenIn connect the legacy channels.
func (c *TunClient) OpenOut() error {
	e, err := c.W.S.Connect(c.Name+".out", c.From, c.GWAddr)
	if err != nil {
		return err
	}
	c.Out = e
	if c.Opaque {
		e.Opaque, e.Peer.Opaque = true, true
	}
	c.seedLeft = 10
	c.attach(e, "out")
	c.start("out", e, func(auth string) []byte {
		return []byte("RDG_OUT_DATA /remoteDesktopGateway/ HTTP/1.1\r\n" + c.hdrs(auth) + "Accept: */*\r\nCache-Control: no-cache\r\n\r\n")
	})
	return nil
}

func (c *TunClient) OpenIn(fromOverride string) error {
	from := c.From
	if fromOverride != "" {
		from = fromOverride
	}
	e, err := c.W.S.Connect(c.Name+".in", from, c.GWAddr)
	if err != nil {
		return err
	}
	c.In = e
	if c.Opaque {
		e.Opaque, e.Peer.Opaque = true, true
	}
	c.attach(e, "in")
	c.start("in", e, func(auth string) []byte {
		if c.ntlmStage["in"] == 1 {
			// the type-1 leg carries no body
			return []byte("RDG_IN_DATA /remoteDesktopGateway/ HTTP/1.1\r\n" + c.hdrs(auth) + "Accept: */*\r\nCache-Control: no-cache\r\nContent-Length: 0\r\n\r\n")
		}
		return []byte("RDG_IN_DATA /remoteDesktopGateway/ HTTP/1.1\r\n" + c.hdrs(auth) + "Accept: */*\r\nCache-Control: no-cache\r\nTransfer-Encoding: chunked\r\n\r\n")
	})
	return nil
}

func (c *TunClient) attach(e *sim.End, role string) {
	e.OnRecv = func(b []byte) { c.onRecv(role, b) }
	e.OnEOF = func(rst bool) {
		if rst {
			c.ev("rst", role, "")
		} else {
			c.ev("eof", role, "")
		}
	}
}

func (c *TunClient) onRecv(role string, b []byte) {
	if c.head[role] == nil {
		c.raw[role] = append(c.raw[role], b...)
		h, ok := codec.ParseHead(c.raw[role])
		if !ok {
			c.ev("bad", role, "unparseable HTTP response head")
			c.Failed = "bad http head on " + role
			return
		}
		if h == nil {
			return
		}
		if c.ntlmStage[role] == 1 && h.Status == 401 {
			// wait for the whole 401 body, then answer the challenge on the same connection
			cl := 0
			fmt.Sscanf(h.Header.Get("Content-Length"), "%d", &cl)
			if len(c.raw[role]) < h.Len+cl {
				return
			}
			var ch *codec.NTLMChallenge
			for _, v := range h.Header.Values("Www-Authenticate") {
				if strings.HasPrefix(v, c.scheme()+" ") {
					if raw, err := base64.StdEncoding.DecodeString(strings.TrimPrefix(v, c.scheme()+" ")); err == nil {
						ch, _ = codec.ParseNTLMChallenge(raw)
					}
				}
			}
			c.ev("http", role, "401 challenge")
			if ch == nil {
				c.Failed = "no NTLM challenge in the 401 on " + role
				c.head[role] = h
				return
			}
			c.Challenges[role] = ch
			c.ntlmStage[role] = 2
			c.raw[role] = c.raw[role][h.Len+cl:]
			nt, lm, sbk := codec.NTLMv2Response(c.NTLMUser, c.NTLMPass, c.NTLMDomain, ch.ServerChallenge, []byte("clntchal"), ch.TargetInfo, time.Now())
			t3 := codec.NTLMAuthenticate(c.NTLMUser, c.NTLMDomain, "WS1", nt, lm, sbk)
			c.endFor(role).Send(c.reqFor[role](c.scheme() + " " + base64.StdEncoding.EncodeToString(t3)))
			return
		}
		c.head[role] = h
		c.ev("http", role, fmt.Sprintf("%d", h.Status))
		rest := c.raw[role][h.Len:]
		c.raw[role] = nil
		switch role {
		case "ws":
			if h.Status == 101 {
				c.Ready = true
			} else {
				c.Failed = fmt.Sprintf("ws upgrade status %d", h.Status)
			}
		case "out", "in":
			if h.Status != 200 {
				c.Failed = fmt.Sprintf("legacy %s status %d", role, h.Status)
			}
		}
		if len(rest) == 0 {
			return
		}
		b = rest
	}
	if c.Failed != "" {
		return // not a tunnel: the body of an HTTP error is not protocol data
	}
	switch role {
	case "ws":
		for _, m := range c.wsd.Feed(b) {
			switch m.Opcode {
			case codec.WSBinary:
				pk := codec.DecodeOne(m.Payload)
				c.Events = append(c.Events, TunEvent{Seq: c.W.S.Seq, Kind: "pkt", Pkt: pk, Conn: role})
			case codec.WSClose:
				c.ev("wsclose", role, fmt.Sprintf("%x", m.Payload))
			default:
				c.ev("wsother", role, fmt.Sprintf("op=%d n=%d", m.Opcode, len(m.Payload)))
			}
		}
		if c.wsd.Bad != "" {
			c.ev("bad", role, c.wsd.Bad)
		}
	case "out":
		if c.seedLeft > 0 {
			k := min(c.seedLeft, len(b))
			c.seedLeft -= k
			b = b[k:]
		}
		if len(b) == 0 {
			return
		}
		for _, pk := range c.def.Feed(b) {
			c.Events = append(c.Events, TunEvent{Seq: c.W.S.Seq, Kind: "pkt", Pkt: pk, Conn: role})
		}
		if c.def.Bad != "" {
			c.ev("bad", role, c.def.Bad)
		}
	case "in":
		c.ev("extra", role, fmt.Sprintf("%d unexpected bytes on the IN channel", len(b)))
	}
}

// LegacyReady reports whether both channels were accepted.
func (c *TunClient) LegacyReady() bool {
	return c.head["out"] != nil && c.head["out"].Status == 200 && c.seedLeft == 0 && c.head["in"] != nil && c.head["in"].Status == 200
}

func (c *TunClient) Status(role string) int {
	if h := c.head[role]; h != nil {
		return h.Status
	}
	return 0
}

func (c *TunClient) Head(role string) *codec.HTTPHead { return c.head[role] }

// SendPreamble sends the bytes the legacy IN handler discards, as their own segment.
func (c *TunClient) SendPreamble() {
	c.In.Send(codec.Chunk([]byte{0}))
	c.preambleSent = true
	c.Ready = true
}

func (c *TunClient) nextMask() [4]byte {
	c.mask = c.mask*1664525 + 1013904223
	return [4]byte{byte(c.mask >> 24), byte(c.mask >> 16), byte(c.mask >> 8), byte(c.mask)}
}

// SendPacket sends one packet as one transport message (one ws message / one HTTP chunk).
func (c *TunClient) SendPacket(p []byte) {
	c.Sent = append(c.Sent, SentPkt{Seq: c.W.S.Seq, Index: len(c.Sent), Bytes: p})
	c.SendRaw(p)
}

// SendRaw sends bytes of the packet stream as one transport message without recording a
// packet boundary (used by segmentation scenarios).
func (c *TunClient) SendRaw(p []byte) {
	if c.Transport == "ws" {
		c.WS.Send(codec.WSMessage(p, nil, c.nextMask()))
	} else {
		c.In.Send(codec.Chunk(p))
	}
}

// SendWire sends already-framed transport bytes (ws frames / HTTP chunks) as one segment.
func (c *TunClient) SendWire(b []byte) {
	if c.Transport == "ws" {
		c.WS.Send(b)
	} else {
		c.In.Send(b)
	}
}

func (c *TunClient) Mask() [4]byte { return c.nextMask() }

// CloseAll closes the client's connections (graceful or reset).
func (c *TunClient) CloseAll(reset bool) {
	for _, e := range []*sim.End{c.WS, c.In, c.Out} {
		if e == nil {
			continue
		}
		if reset {
			e.Reset()
		} else {
			e.Shut()
		}
	}
}

// Packets returns the packets received so far (control and data) in order.
func (c *TunClient) Packets() []TunEvent {
	var out []TunEvent
	for _, e := range c.Events {
		if e.Kind == "pkt" {
			out = append(out, e)
		}
	}
	return out
}

// Ended reports whether the gateway ended the server-to-client stream (EOF, reset or a
// websocket close frame).
func (c *TunClient) Ended() bool {
	for _, e := range c.Events {
		if e.Kind == "eof" || e.Kind == "rst" {
			return true
		}
		if e.Kind == "wsclose" {
			return true
		}
	}
	return false
}

func (c *TunClient) Describe() string {
	var sb strings.Builder
	for _, e := range c.Events {
		switch e.Kind {
		case "pkt":
			fmt.Fprintf(&sb, "[%d %s st=%#x]", e.Seq, codec.PktName(e.Pkt.Type), e.Pkt.Status)
		default:
			fmt.Fprintf(&sb, "[%d %s/%s %s]", e.Seq, e.Kind, e.Conn, e.Text)
		}
	}
	return sb.String()
}
