package env

import (
	"fmt"
	"net/url"
	"sort"
	"strings"
)

// Browser is a scheduler-owned user agent with a cookie jar.
type Browser struct {
	W    *World
	Name string
	From string // ip:port
	XFF  string
	Jar  map[string]string
	// VaryPort: every request arrives on a new connection from a new ephemeral port (browsers
	// close and reopen connections all the time); the address stays the same
	VaryPort bool
	n        int
	Log      []string
	// TLS: the gateway is reached over TLS
	TLS bool
}

func (w *World) NewBrowser(name, from string) *Browser {
	return &Browser{W: w, Name: name, From: from, Jar: map[string]string{}}
}

func (b *Browser) cookieHeader() string {
	var ks []string
	for k := range b.Jar {
		ks = append(ks, k)
	}
	sort.Strings(ks)
	var parts []string
	for _, k := range ks {
		parts = append(parts, k+"="+b.Jar[k])
	}
	return strings.Join(parts, "; ")
}

// Request performs one request with the jar's cookies and stores cookies set in the reply.
func (b *Browser) Request(method, path string, extra [][2]string) *HTTPResult {
	b.n++
	hdr := [][2]string{}
	if c := b.cookieHeader(); c != "" {
		hdr = append(hdr, [2]string{"Cookie", c})
	}
	if b.XFF != "" {
		hdr = append(hdr, [2]string{"X-Forwarded-For", b.XFF})
	}
	hdr = append(hdr, extra...)
	from := b.From
	if b.VaryPort {
		if i := strings.LastIndexByte(from, ':'); i > 0 {
			var port int
			fmt.Sscanf(from[i+1:], "%d", &port)
			from = fmt.Sprintf("%s:%d", from[:i], 20000+(port+7*b.n)%40000)
		}
	}
	req := &HTTPReq{Name: fmt.Sprintf("%s#%d", b.Name, b.n), From: from, Method: method, Path: path, Header: hdr}
	var r *HTTPResult
	if b.TLS {
		r = b.W.DoTLS(req, false)
	} else {
		r = b.W.Do(req)
	}
	if r.Header != nil {
		for _, sc := range r.Header.Values("Set-Cookie") {
			kv := strings.SplitN(strings.SplitN(sc, ";", 2)[0], "=", 2)
			if len(kv) == 2 {
				if strings.Contains(sc, "Max-Age=0") || strings.Contains(sc, "Max-Age=-") {
					delete(b.Jar, kv[0])
				} else {
					b.Jar[kv[0]] = kv[1]
				}
			}
		}
	}
	b.Log = append(b.Log, fmt.Sprintf("%s %s -> %d", method, path, r.Status))
	return r
}

func (b *Browser) Get(path string) *HTTPResult { return b.Request("GET", path, nil) }

// StartLogin requests path and expects to be sent to the provider; it returns the state
// parameter of the authorisation URL.
func (b *Browser) StartLogin(path string) (state string, r *HTTPResult) {
	r = b.Get(path)
	if r.Status != 302 {
		return "", r
	}
	u, err := url.Parse(r.Header.Get("Location"))
	if err != nil {
		return "", r
	}
	return u.Query().Get("state"), r
}

// Login walks the whole authorisation-code flow for user; ok means the callback redirected
// back to the original URL.
func (b *Browser) Login(path string, user *IdPUser) (ok bool, cb *HTTPResult) {
	state, r := b.StartLogin(path)
	if state == "" {
		return false, r
	}
	code := b.W.IdP.NewCode(user)
	cb = b.Get("/callback?state=" + url.QueryEscape(state) + "&code=" + url.QueryEscape(code))
	return cb.Status == 302 && !strings.Contains(cb.Header.Get("Location"), b.W.IdP.Issuer), cb
}

// RDPFile is a parsed connection file (independent line parser: name:type:value, CRLF).
type RDPFile struct {
	Lines  []string
	Values map[string]string
	Types  map[string]string
	Bad    []string
}

func ParseRDP(body []byte) *RDPFile {
	f := &RDPFile{Values: map[string]string{}, Types: map[string]string{}}
	for _, ln := range strings.Split(string(body), "\r\n") {
		if ln == "" {
			continue
		}
		f.Lines = append(f.Lines, ln)
		p := strings.SplitN(ln, ":", 3)
		if len(p) != 3 || (p[1] != "s" && p[1] != "i" && p[1] != "b") {
			f.Bad = append(f.Bad, ln)
			continue
		}
		if _, dup := f.Values[p[0]]; dup {
			f.Bad = append(f.Bad, "duplicate "+ln)
		}
		f.Values[p[0]] = p[2]
		f.Types[p[0]] = p[1]
	}
	return f
}
