package env

import (
	"context"
	crand "crypto/rand"
	"errors"
	"fmt"
	"io"
	"net"
	"time"

	authconfig "github.com/bolkedebruin/rdpgw/cmd/auth/config"
	"github.com/bolkedebruin/rdpgw/cmd/auth/database"
	"github.com/bolkedebruin/rdpgw/cmd/auth/ntlm"
	"github.com/bolkedebruin/rdpgw/shared/auth"
	"google.golang.org/grpc"
	"google.golang.org/grpc/credentials/insecure"

	"simh/sim"
)

// AuthNode is the simulated authentication helper: a plain grpc.NewServer() (no
// interceptors, so a handler panic kills the process exactly as in cmd/auth) whose NTLM
// method is the repository's real verifier over the real user database, and whose
// Authenticate method (PAM in the original) answers from a table.  cmd/auth/auth.go itself
// cannot be compiled in this sandbox (cgo PAM header missing).
type AuthNode struct {
	W     *World
	Sock  string
	Users []authconfig.UserConfig
	PAM   map[string]string
	srv   *grpc.Server
	impl  *authImpl
	Calls []AuthCall
	Gen   int
	// SlowBy delays every reply by that much simulated time (fault)
	SlowBy time.Duration
	// DBDelay / DBSlowCalls: the next DBSlowCalls password look-ups take DBDelay each (fault)
	DBDelay     time.Duration
	DBSlowCalls int
}

// slowDB is the user database behind the verifier, with an optional delay per look-up (a
// directory or disk that takes its time): DBDelay of simulated time, counted down by DBSlowCalls.
type slowDB struct {
	n  *AuthNode
	db interface{ GetPassword(string) string }
}

func (d *slowDB) GetPassword(user string) string {
	if d.n.DBSlowCalls > 0 && d.n.DBDelay > 0 {
		d.n.DBSlowCalls--
		time.Sleep(d.n.DBDelay)
	}
	return d.db.GetPassword(user)
}

type AuthCall struct {
	Seq     uint64
	Kind    string // "pam" or "ntlm"
	User    string
	Pass    string
	Session string
	Msg     string
	OK      bool
	Name    string
	Reply   string
	Err     string
}

type authImpl struct {
	auth.UnimplementedAuthenticateServer
	n    *AuthNode
	ntlm *ntlm.NTLMAuth
}

func (a *authImpl) Authenticate(ctx context.Context, m *auth.UserPass) (*auth.AuthResponse, error) {
	if a.n.SlowBy > 0 {
		time.Sleep(a.n.SlowBy)
	}
	r := &auth.AuthResponse{}
	a.n.W.S.Call("auth pam "+m.Username+" "+m.Password, func() {
		want, ok := a.n.PAM[m.Username]
		r.Authenticated = ok && want != "" && want == m.Password
		if !r.Authenticated {
			r.Error = "Authentication failure"
		}
		a.n.Calls = append(a.n.Calls, AuthCall{Seq: a.n.W.S.Seq, Kind: "pam", User: m.Username, Pass: m.Password, OK: r.Authenticated})
	})
	return r, nil
}

func (a *authImpl) NTLM(ctx context.Context, m *auth.NtlmRequest) (*auth.NtlmResponse, error) {
	if a.n.SlowBy > 0 {
		time.Sleep(a.n.SlowBy)
	}
	r, err := a.ntlm.Authenticate(m)
	a.n.W.S.Call("auth ntlm "+m.Session+" "+m.NtlmMessage, func() {
		c := AuthCall{Seq: a.n.W.S.Seq, Kind: "ntlm", Session: m.Session, Msg: m.NtlmMessage}
		if r != nil {
			c.OK, c.Name, c.Reply = r.Authenticated, r.Username, r.NtlmMessage
		}
		if err != nil {
			c.Err = err.Error()
		}
		a.n.Calls = append(a.n.Calls, c)
	})
	return r, err
}

type shortReader struct{ r io.Reader }

func (s shortReader) Read(p []byte) (int, error) {
	if len(p) > 1 {
		p = p[:1]
	}
	return s.r.Read(p)
}

// StartAuthNode starts the helper on a (simulated) unix socket path.
func (w *World) StartAuthNode(sock string, users []authconfig.UserConfig, pam map[string]string) *AuthNode {
	n := &AuthNode{W: w, Sock: sock, Users: users, PAM: pam}
	n.start()
	return n
}

func (n *AuthNode) start() {
	n.Gen++
	l := n.W.S.Listen(n.Sock)
	l.Auto = true
	n.srv = grpc.NewServer()
	switch n.W.AuthEntropy {
	case "fail-at-start":
		// fault: the secure random source is unavailable while the helper starts
		old := crand.Reader
		crand.Reader = failingReader{}
		n.impl = &authImpl{n: n, ntlm: ntlm.NewNTLMAuth(&slowDB{n: n, db: database.NewConfig(n.Users)})}
		crand.Reader = old
		n.W.S.Count("fault.entropy.unavailable_at_helper_start")
	case "short-reads":
		// fault-ish: the random source hands out one byte per Read call (legal for an io.Reader)
		crand.Reader = shortReader{origRand}
		n.impl = &authImpl{n: n, ntlm: ntlm.NewNTLMAuth(&slowDB{n: n, db: database.NewConfig(n.Users)})}
		n.W.S.Count("fault.entropy.short_reads")
	default:
		n.impl = &authImpl{n: n, ntlm: ntlm.NewNTLMAuth(&slowDB{n: n, db: database.NewConfig(n.Users)})}
	}
	auth.RegisterAuthenticateServer(n.srv, n.impl)
	srv := n.srv
	go srv.Serve(l)
	n.W.S.Run(func() bool { return n.W.S.Listening(n.Sock) }, 1000, time.Second)
}

// Stop kills the helper: connections are cut and in-memory NTLM contexts are lost.
func (n *AuthNode) Stop() {
	srv := n.srv
	done := false
	go func() {
		srv.Stop()
		n.W.S.Call("authnode stopped", func() { done = true })
	}()
	n.W.S.Run(func() bool { return done }, 5000, 5*time.Second)
	n.W.S.Unlisten(n.Sock)
	n.W.S.Count("fault.node.restart")
}

// Start brings a stopped node back (fresh process: empty NTLM context table).
func (n *AuthNode) Start() { n.start() }

func (n *AuthNode) Restart() {
	n.Stop()
	n.start()
}

// NTLMResult is the outcome of one NTLM RPC made by the harness.
type NTLMResult struct {
	Resp *auth.NtlmResponse
	Err  error
}

// CallNTLM performs the NTLM RPC as the gateway would (real gRPC client over a transparent
// simulated link) and runs the simulation until it returns.
func (n *AuthNode) CallNTLM(session, msg string, timeout time.Duration) NTLMResult {
	var res NTLMResult
	done := false
	go func() {
		r, err := n.rpc(session, msg, timeout)
		n.W.S.Call("ntlm rpc done "+session, func() { res, done = NTLMResult{r, err}, true })
	}()
	n.W.S.Run(func() bool { return done }, 20000, timeout+5*time.Second)
	if !done {
		res.Err = errors.New("rpc did not return")
	}
	return res
}

func (n *AuthNode) rpc(session, msg string, timeout time.Duration) (*auth.NtlmResponse, error) {
	conn, err := grpc.Dial(n.Sock, grpc.WithTransportCredentials(insecure.NewCredentials()),
		grpc.WithContextDialer(func(ctx context.Context, addr string) (net.Conn, error) {
			return n.W.S.Dial("unix", "harness", addr, 0)
		}))
	if err != nil {
		return nil, err
	}
	defer conn.Close()
	ctx, cancel := context.WithTimeout(context.Background(), timeout)
	defer cancel()
	return auth.NewAuthenticateClient(conn).NTLM(ctx, &auth.NtlmRequest{Session: session, NtlmMessage: msg})
}

func (c AuthCall) String() string {
	if c.Kind == "pam" {
		return fmt.Sprintf("pam(%s)=%v", c.User, c.OK)
	}
	return fmt.Sprintf("ntlm(%s)=%v/%s err=%q", c.Session, c.OK, c.Name, c.Err)
}

var _ = sim.StopIdle
