module simh

go 1.26.8

require github.com/bolkedebruin/rdpgw v0.0.0

replace github.com/bolkedebruin/rdpgw => ../repo
