// Package sim is the deterministic simulator: an in-memory network whose every blocking
// operation is parked in a scheduler running as the main goroutine of a testing/synctest
// bubble, a fake clock (the bubble's), a choice tape and a journal.  One tape = one exactly
// repeatable execution.  See DESIGN.md §2.3.
package sim

import (
	"errors"
	"fmt"
	"hash/fnv"
	"io"
	"net"
	"os"
	"sort"
	"strings"
	"sync"
	"syscall"
	"testing/synctest"
	"time"
)

type Addr string

//go:norace
func (a Addr) Network() string { return "tcp" }

//go:norace
func (a Addr) String() string { return string(a) }

type opKind int

const (
	opRead opKind = iota
	opWrite
	opAccept
	opDial
	opClose
	opSetRDL
	opSetWDL
	opCall
	opLClose
	opYield
)

var kindNames = [...]string{"read", "write", "accept", "dial", "close", "setrdl", "setwdl", "call", "lclose", "yield"}

type op struct {
	kind    opKind
	e       *End
	l       *Listener
	max     int
	data    []byte
	off     int
	t       time.Time
	network string
	from    string
	to      string
	key     string
	fn      func()
	n       int
	err     error
	rc      *End
	wake    chan struct{}
	black   bool // dial was black-holed: stays parked until its deadline
}

type seg struct{ b []byte }

// End is one endpoint of a simulated connection.  All fields are owned by the scheduler
// goroutine; goroutines of the system under test reach them only through ops.
type End struct {
	s      *Sim
	Name   string
	Peer   *End
	Local  Addr
	Remote Addr

	inflight   []seg // bytes in flight towards this end, write boundaries kept
	finPending bool  // peer closed: EOF follows the in-flight bytes
	rstPending bool  // peer reset
	EOFSeen    bool
	Closed     bool      // closed locally
	rdl, wdl   time.Time // guarded by dlmu: set by the code under test without a round trip through the scheduler
	dlmu       sync.Mutex

	Opaque bool // journal lengths only (content differs legitimately between executions)
	Auto   bool // transparent link: ops complete eagerly, not journaled
	Stream bool // deliveries towards this end may split/coalesce write boundaries
	Owned  bool // scheduler-owned sink (no goroutine behind it)
	// Datagram: a connected UDP socket: a write larger than the largest datagram fails
	Datagram bool

	Recv    []byte
	OnRecv  func(b []byte)
	OnEOF   func(rst bool)
	OnClose func() // called when the *peer* side program closes (owned ends only get OnEOF)

	HoldDeliver bool // fault: nothing is delivered to this end while set
	HoldWrites  bool // fault: writes issued by this end are not granted while set
	KeepHold    bool // the hold is permanent: drains do not lift it
	BytesOut    int
	BytesIn     int
	WritesOut   int
	Meta        any
}

type Listener struct {
	s        *Sim
	addr     Addr
	queue    []*End
	closed   bool
	Auto     bool
	Owned    bool
	OnAccept func(e *End)
	Stream   bool // delivery mode for the accepted side
	// StreamBack: deliveries towards the dialing side may split/coalesce (TCP re-segmentation
	// of what the listener's side writes)
	StreamBack bool
	nconn      int
}

type DialVerdict int

const (
	DialDefault DialVerdict = iota
	DialRefuse
	DialBlackhole
	// DialLocalFailure: the connection attempt fails on this machine before anything is sent
	// (no descriptor, no buffer space, no local address): Sim.DialLocalErr is returned
	DialLocalFailure
)

type Violation struct {
	Oracle string `json:"oracle"`
	Sig    string `json:"sig"`
	Msg    string `json:"msg"`
	Seq    uint64 `json:"seq"`
	SimMS  int64  `json:"sim_ms"`
}

type actor struct {
	key     string
	enabled func() bool
	do      func()
}

type Sim struct {
	// PartialWrites: a granted write may take only a prefix of the data (full socket buffer)
	PartialWrites bool
	Tape          *Tape
	submit        chan *op
	pending       []*op
	listeners     map[string]*Listener
	ends          []*End
	actors        []*actor
	J             *Journal
	Seq           uint64
	Start         time.Time
	Stats         map[string]int // fault kinds and probes, counted when they fire
	DialHook      func(network, from, to string) DialVerdict
	DialLocalErr  error
	DialLog       []DialRec
	invs          []func() *Violation
	Viol          *Violation
	names         map[string]int
	Steps         int
	Draining      bool // set by scenarios once fault injection has stopped
	stepHook      func()
}

type DialRec struct {
	Seq     uint64
	From    string
	To      string
	Network string
	Verdict string
	End     *End
}

func New(t *Tape) *Sim {
	return &Sim{
		Tape:      t,
		submit:    make(chan *op, 1<<14),
		listeners: map[string]*Listener{},
		J:         newJournal(),
		Start:     time.Now(),
		Stats:     map[string]int{},
		names:     map[string]int{},
	}
}

func (s *Sim) Now() time.Duration { return time.Since(s.Start) }

func (s *Sim) Count(name string) { s.Stats[name]++ }

// Fail records the first violation of the run.
func (s *Sim) Fail(oracle, sig, format string, a ...any) {
	if s.Viol != nil {
		return
	}
	s.Viol = &Violation{Oracle: oracle, Sig: sig, Msg: fmt.Sprintf(format, a...), Seq: s.Seq, SimMS: s.Now().Milliseconds()}
	s.J.Add(s, "VIOLATION", "%s/%s %s", oracle, sig, s.Viol.Msg)
}

func (s *Sim) Invariant(f func() *Violation) { s.invs = append(s.invs, f) }

func (s *Sim) uniq(base string) string {
	n := s.names[base]
	s.names[base] = n + 1
	return fmt.Sprintf("%s#%d", base, n)
}

// ---------------------------------------------------------------------------------------
// SUT-side shims.  They are invisible to the race detector: no synchronisation event and
// no memory access of theirs is recorded, so that the park/grant protocol does not create
// happens-before edges between goroutines of the system under test (DESIGN.md §2.5).

//go:norace
func (s *Sim) call(o *op) {
	raceOff()
	o.wake = make(chan struct{})
	s.submit <- o
	<-o.wake
	raceOn()
}

// Call runs fn on the scheduler goroutine and returns when it has run.  key orders calls
// that arrive in the same quiescence window.
//
//go:norace
func (s *Sim) Call(key string, fn func()) {
	s.call(&op{kind: opCall, key: key, fn: fn})
}

// Yield parks the calling goroutine of the system under test at a synchronisation point (a
// lock, unlock or pool operation of the repository's own code) until the scheduler resumes
// it: other goroutines may be run in between, so interleavings between I/O operations are
// decided by the scheduler as well.  key names the synchronisation object and operation.
//
//go:norace
func (s *Sim) Yield(key string) {
	s.call(&op{kind: opYield, key: key})
}

//go:norace
func (e *End) Read(p []byte) (int, error) {
	if len(p) == 0 {
		return 0, nil
	}
	o := &op{kind: opRead, e: e, max: len(p)}
	e.s.call(o)
	for i := 0; i < o.n; i++ {
		p[i] = o.data[i]
	}
	return o.n, o.err
}

//go:norace
func (e *End) Write(p []byte) (int, error) {
	d := make([]byte, len(p))
	for i := range p {
		d[i] = p[i]
	}
	o := &op{kind: opWrite, e: e, data: d}
	e.s.call(o)
	return o.n, o.err
}

//go:norace
func (e *End) Close() error {
	o := &op{kind: opClose, e: e}
	e.s.call(o)
	return o.err
}

//go:norace
func (e *End) LocalAddr() net.Addr { return e.Local }

//go:norace
func (e *End) RemoteAddr() net.Addr { return e.Remote }

// Deadlines are stored at once, without parking the caller in the scheduler: net/http sets
// them while it holds a mutex of its own (connReader), and a goroutine that is parked with a
// lock held keeps every goroutine that wants that lock in a non-durable wait, which freezes the
// bubble.  The scheduler reads them only when the world is quiescent, so what it sees is as
// deterministic as before.
//
//go:norace
func (e *End) SetDeadline(t time.Time) error {
	e.dlmu.Lock()
	e.rdl, e.wdl = t, t
	e.dlmu.Unlock()
	return nil
}

//go:norace
func (e *End) deadlines() (r, w time.Time) {
	e.dlmu.Lock()
	r, w = e.rdl, e.wdl
	e.dlmu.Unlock()
	return
}

//go:norace
func (e *End) SetReadDeadline(t time.Time) error {
	e.dlmu.Lock()
	e.rdl = t
	e.dlmu.Unlock()
	return nil
}

//go:norace
func (e *End) SetWriteDeadline(t time.Time) error {
	e.dlmu.Lock()
	e.wdl = t
	e.dlmu.Unlock()
	return nil
}

//go:norace
func (l *Listener) Accept() (net.Conn, error) {
	o := &op{kind: opAccept, l: l}
	l.s.call(o)
	if o.err != nil {
		return nil, o.err
	}
	return o.rc, nil
}

//go:norace
func (l *Listener) Close() error {
	l.s.call(&op{kind: opLClose, l: l})
	return nil
}

//go:norace
func (l *Listener) Addr() net.Addr { return l.addr }

// Dial is what the system under test calls (through simhook) to open a connection.
//
//go:norace
func (s *Sim) Dial(network, from, to string, timeout time.Duration) (net.Conn, error) {
	o := &op{kind: opDial, network: network, from: from, to: to}
	if timeout > 0 {
		o.t = time.Now().Add(timeout)
	}
	s.call(o)
	if o.err != nil {
		return nil, o.err
	}
	return o.rc, nil
}

type timeoutErr struct{ what string }

func (e timeoutErr) Error() string   { return e.what + ": i/o timeout" }
func (timeoutErr) Timeout() bool     { return true }
func (timeoutErr) Temporary() bool   { return true }
func (timeoutErr) Unwrap() error     { return os.ErrDeadlineExceeded }
func (timeoutErr) Is(err error) bool { return err == os.ErrDeadlineExceeded }

var errReset = &net.OpError{Op: "read", Net: "tcp", Err: syscall.ECONNRESET}
var errPipe = &net.OpError{Op: "write", Net: "tcp", Err: syscall.EPIPE}
var errRefused = &net.OpError{Op: "dial", Net: "tcp", Err: syscall.ECONNREFUSED}
var errMsgSize = &net.OpError{Op: "write", Net: "udp", Err: syscall.EMSGSIZE}

// ---------------------------------------------------------------------------------------
// scheduler side

// Listen creates a goroutine-backed listener (the system under test accepts on it).
func (s *Sim) Listen(addr string) *Listener {
	l := &Listener{s: s, addr: Addr(addr)}
	s.listeners[addr] = l
	return l
}

// ListenOwned creates a listener served by the scheduler itself (stub nodes).
func (s *Sim) ListenOwned(addr string, onAccept func(e *End)) *Listener {
	l := &Listener{s: s, addr: Addr(addr), Owned: true, OnAccept: onAccept}
	s.listeners[addr] = l
	return l
}

func (s *Sim) Unlisten(addr string) { delete(s.listeners, addr) }

func (s *Sim) pair(name, from, to string, auto bool) (*End, *End) {
	a := &End{s: s, Name: name, Local: Addr(from), Remote: Addr(to), Auto: auto}
	b := &End{s: s, Name: name + "'", Local: Addr(to), Remote: Addr(from), Auto: auto}
	a.Peer, b.Peer = b, a
	s.ends = append(s.ends, a, b)
	return a, b
}

// Connect opens a connection from a scheduler-owned client to a listener.  The returned
// end is owned by the scheduler (a sink); the far end goes to the listener's queue.
func (s *Sim) Connect(name, from, to string) (*End, error) {
	return s.connect(name, from, to, false)
}

// ConnectAuto is Connect over a transparent link: bytes flow eagerly in FIFO order, are not
// journaled and consume no tape (used for observations such as /metrics whose size depends
// on process-wide state).
func (s *Sim) ConnectAuto(name, from, to string) (*End, error) {
	return s.connect(name, from, to, true)
}

func (s *Sim) connect(name, from, to string, auto bool) (*End, error) {
	l, ok := s.listeners[to]
	if !ok || l.closed {
		s.J.Add(s, "connect", "%s %s->%s refused", name, from, to)
		return nil, errRefused
	}
	a, b := s.pair(name, from, to, auto)
	a.Owned = true
	b.Stream = l.Stream && !auto
	s.J.Add(s, "connect", "%s %s->%s", name, from, to)
	s.deliverToListener(l, b)
	return a, nil
}

func (s *Sim) deliverToListener(l *Listener, b *End) {
	if l.Owned {
		b.Owned = true
		if l.OnAccept != nil {
			l.OnAccept(b)
		}
		return
	}
	l.queue = append(l.queue, b)
}

// Send queues bytes from an owned end towards its peer as one segment.
func (e *End) Send(b []byte) {
	s := e.s
	if e.Closed {
		return
	}
	if e.Peer.Closed {
		s.J.Add(s, "send-void", "%s n=%d", e.Name, len(b))
		return
	}
	cp := append([]byte(nil), b...)
	e.Peer.inflight = append(e.Peer.inflight, seg{cp})
	e.BytesOut += len(b)
	e.WritesOut++
	if e.Auto {
		s.autoProgress()
		return
	}
	s.J.AddData(s, "send", e, cp)
}

// ShutWrite half-closes an owned end: the peer reads EOF after the in-flight data, this end
// keeps receiving (shutdown(SHUT_WR)).
func (e *End) ShutWrite() {
	if e.Closed || e.Peer.finPending {
		return
	}
	e.Peer.finPending = true
	if !e.Auto {
		e.s.J.Add(e.s, "shut-write", "%s", e.Name)
	}
	e.s.Count("fault.conn.half_close")
}

// Shut closes an owned end gracefully (FIN after in-flight data).
func (e *End) Shut() {
	if e.Closed {
		return
	}
	e.Closed = true
	e.Peer.finPending = true
	if !e.Auto {
		e.s.J.Add(e.s, "shut", "%s", e.Name)
	}
	e.s.cancelOps(e, net.ErrClosed)
	if e.Auto {
		e.s.autoProgress()
	}
}

// Reset aborts the connection from this end: the peer sees ECONNRESET, in-flight data in
// both directions is lost.
func (e *End) Reset() {
	if e.Closed {
		return
	}
	e.Closed = true
	e.inflight = nil
	e.Peer.inflight = nil
	e.Peer.rstPending = true
	e.s.J.Add(e.s, "reset", "%s", e.Name)
	e.s.cancelOps(e, net.ErrClosed)
}

// InFlight is the number of bytes in flight towards this end.
func (e *End) InFlight() int {
	n := 0
	for _, sg := range e.inflight {
		n += len(sg.b)
	}
	return n
}

// PeerClosed reports whether the program at the other end has closed its side.
func (e *End) PeerClosed() bool { return e.Peer.Closed }

func (s *Sim) Ends() []*End { return s.ends }

// AddActor registers an environment action the scheduler may choose whenever enabled().
func (s *Sim) AddActor(key string, enabled func() bool, do func()) {
	s.actors = append(s.actors, &actor{key, enabled, do})
}

func (s *Sim) finish(o *op) {
	for i, x := range s.pending {
		if x == o {
			s.pending = append(s.pending[:i], s.pending[i+1:]...)
			break
		}
	}
	close(o.wake)
}

func (s *Sim) cancelOps(e *End, err error) {
	for _, x := range append([]*op(nil), s.pending...) {
		if x.e == e && (x.kind == opRead || x.kind == opWrite) {
			x.err = err
			if x.kind == opWrite {
				x.n = x.off
			}
			s.finish(x)
		}
	}
}

func opKey(o *op) string {
	switch o.kind {
	case opDial:
		return "dial " + o.from + ">" + o.to
	case opAccept, opLClose:
		return kindNames[o.kind] + " " + string(o.l.addr)
	case opCall:
		return "call " + o.key
	case opYield:
		return "yield " + o.key
	case opWrite:
		if o.e.Opaque {
			return "write " + o.e.Name
		}
		h := fnv.New32a()
		h.Write(o.data)
		return fmt.Sprintf("write %s %d %08x", o.e.Name, len(o.data), h.Sum32())
	default:
		return kindNames[o.kind] + " " + o.e.Name
	}
}

// settle waits for quiescence and takes in every op submitted meanwhile.  Within one
// quiescence window ops are applied in an order that does not depend on arrival order:
// parking ops first, then immediate ops, each group sorted by logical key.
func (s *Sim) settle() {
	for {
		synctest.Wait()
		var batch []*op
		for {
			select {
			case o := <-s.submit:
				batch = append(batch, o)
				continue
			default:
			}
			break
		}
		if len(batch) == 0 {
			// ops whose deadline has passed are completed ONE at a time, each followed by a
			// wait for quiescence: several goroutines released in the same instant (three
			// requests whose connection attempts time out together) would submit their next
			// ops in an order nobody controls
			if s.expireOne() {
				continue
			}
			return
		}
		rank := func(o *op) int {
			switch o.kind {
			case opRead, opWrite, opAccept, opDial, opYield:
				return 0
			case opCall:
				return 1
			default:
				return 2
			}
		}
		sort.SliceStable(batch, func(i, j int) bool {
			ri, rj := rank(batch[i]), rank(batch[j])
			if ri != rj {
				return ri < rj
			}
			return opKey(batch[i]) < opKey(batch[j])
		})
		for _, o := range batch {
			s.intake(o)
		}
		s.autoProgress()
	}
}

func (s *Sim) intake(o *op) {
	switch o.kind {
	case opCall:
		o.fn()
		close(o.wake)
	case opSetRDL:
		o.e.SetReadDeadline(o.t)
		close(o.wake)
	case opSetWDL:
		o.e.SetWriteDeadline(o.t)
		close(o.wake)
	case opLClose:
		o.l.closed = true
		if s.listeners[string(o.l.addr)] == o.l {
			delete(s.listeners, string(o.l.addr))
		}
		for _, x := range append([]*op(nil), s.pending...) {
			if x.kind == opAccept && x.l == o.l {
				x.err = net.ErrClosed
				s.finish(x)
			}
		}
		close(o.wake)
	case opClose:
		e := o.e
		if e.Closed {
			o.err = net.ErrClosed
		} else {
			e.Closed = true
			e.Peer.finPending = true
			if !e.Auto {
				s.J.Add(s, "close", "%s", e.Name)
			}
			s.cancelOps(e, net.ErrClosed)
			if e.Peer.Owned && e.Peer.OnClose != nil {
				e.Peer.OnClose()
			}
		}
		close(o.wake)
	case opRead, opWrite:
		if o.e.Closed {
			o.err = net.ErrClosed
			close(o.wake)
			return
		}
		if o.kind == opWrite && o.e.Datagram && len(o.data) > 65507 {
			// sendto(2) on a UDP socket: EMSGSIZE, nothing is sent
			o.err = errMsgSize
			s.J.Add(s, "write-emsgsize", "%s n=%d", o.e.Name, len(o.data))
			s.Count("fault.udp.message_too_long")
			close(o.wake)
			return
		}
		s.pending = append(s.pending, o)
	default:
		s.pending = append(s.pending, o)
	}
}

// expire completes the ops whose deadline has passed (one at a time, see settle).
func (s *Sim) expire() { s.settle() }

// expireOne completes the first parked op whose deadline has passed.
func (s *Sim) expireOne() bool {
	now := time.Now()
	for _, o := range append([]*op(nil), s.pending...) {
		switch o.kind {
		case opRead:
			if rdl, _ := o.e.deadlines(); !rdl.IsZero() && !now.Before(rdl) {
				o.err = timeoutErr{"read"}
				s.finish(o)
				return true
			}
		case opWrite:
			if _, wdl := o.e.deadlines(); !wdl.IsZero() && !now.Before(wdl) {
				o.err = timeoutErr{"write"}
				o.n = o.off
				s.finish(o)
				return true
			}
		case opDial:
			if !o.t.IsZero() && !now.Before(o.t) {
				o.err = timeoutErr{"dial " + o.to}
				s.J.Add(s, "dial-timeout", "%s>%s", o.from, o.to)
				s.Count("probe.dial_timeout")
				s.finish(o)
				return true
			}
		}
	}
	return false
}

// nextDeadline is the earliest deadline among parked ops (zero if none).
func (s *Sim) nextDeadline() time.Time {
	var d time.Time
	upd := func(t time.Time) {
		if !t.IsZero() && (d.IsZero() || t.Before(d)) {
			d = t
		}
	}
	for _, o := range s.pending {
		switch o.kind {
		case opRead:
			r, _ := o.e.deadlines()
			upd(r)
		case opWrite:
			_, w := o.e.deadlines()
			upd(w)
		case opDial:
			upd(o.t)
		}
	}
	return d
}

// autoProgress completes ops on transparent links eagerly, in FIFO order.
func (s *Sim) autoProgress() {
	for again := true; again; {
		again = false
		for _, o := range append([]*op(nil), s.pending...) {
			switch o.kind {
			case opWrite:
				if !o.e.Auto {
					continue
				}
				if o.e.Peer.Closed {
					o.err = errPipe
				} else {
					o.e.Peer.inflight = append(o.e.Peer.inflight, seg{o.data})
					o.n = len(o.data)
				}
				s.finish(o)
				again = true
			case opRead:
				e := o.e
				if !e.Auto || e.HoldDeliver {
					continue
				}
				if len(e.inflight) > 0 {
					o.data, o.n = e.take(o.max, true)
					s.finish(o)
					again = true
				} else if e.rstPending {
					o.err = errReset
					s.finish(o)
					again = true
				} else if e.finPending {
					o.err = io.EOF
					s.finish(o)
					again = true
				}
			case opDial:
				l, ok := s.listeners[o.to]
				if !ok || !l.Auto {
					continue
				}
				if s.DialHook != nil {
					if v := s.DialHook(o.network, o.from, o.to); v == DialRefuse {
						o.err = errRefused
						s.Count("fault.dial.refuse")
						s.finish(o)
						again = true
						continue
					} else if v == DialBlackhole {
						continue
					}
				}
				a, b := s.pair(s.uniq(o.from+">"+o.to), o.from, o.to, true)
				s.deliverToListener(l, b)
				o.rc = a
				s.finish(o)
				again = true
			case opAccept:
				if o.l.Auto && len(o.l.queue) > 0 {
					o.rc = o.l.queue[0]
					o.l.queue = o.l.queue[1:]
					s.finish(o)
					again = true
				}
			}
		}
		// owned sinks on auto links
		for _, e := range s.ends {
			if e.Auto && e.Owned && !e.HoldDeliver && !e.Closed {
				for len(e.inflight) > 0 {
					b, _ := e.take(1<<30, true)
					s.sink(e, b)
					again = true
				}
				if (e.finPending || e.rstPending) && !e.EOFSeen {
					e.EOFSeen = true
					if e.OnEOF != nil {
						e.OnEOF(e.rstPending)
					}
					again = true
				}
			}
		}
	}
}

// take removes up to max bytes from the in-flight queue.  whole=true takes one write
// segment (or its first max bytes); whole=false is used with an explicit byte count.
func (e *End) take(max int, whole bool) ([]byte, int) {
	if len(e.inflight) == 0 {
		return nil, 0
	}
	if whole {
		sg := e.inflight[0]
		if len(sg.b) <= max {
			e.inflight = e.inflight[1:]
			e.BytesIn += len(sg.b)
			return sg.b, len(sg.b)
		}
		out := sg.b[:max]
		e.inflight[0] = seg{sg.b[max:]}
		e.BytesIn += max
		return out, max
	}
	var out []byte
	for len(out) < max && len(e.inflight) > 0 {
		sg := e.inflight[0]
		need := max - len(out)
		if len(sg.b) <= need {
			out = append(out, sg.b...)
			e.inflight = e.inflight[1:]
		} else {
			out = append(out, sg.b[:need]...)
			e.inflight[0] = seg{sg.b[need:]}
		}
	}
	e.BytesIn += len(out)
	return out, len(out)
}

func (s *Sim) sink(e *End, b []byte) {
	e.Recv = append(e.Recv, b...)
	if e.OnRecv != nil {
		e.OnRecv(b)
	}
}

type action struct {
	key string
	f   func()
}

// actions enumerates everything the scheduler may do next.
func (s *Sim) actions() []action {
	var acts []action
	seenW := map[string]bool{}
	nY := map[string]int{}
	for _, o := range s.pending {
		o := o
		switch o.kind {
		case opYield:
			// resuming sorts before everything else: choice 0 means "no preemption here"
			k := fmt.Sprintf("-Y %s #%d", o.key, nY[o.key])
			nY[o.key]++
			acts = append(acts, action{k, func() {
				s.J.Add(s, "resume", "%s", o.key)
				s.Count("sched.sync_point")
				s.finish(o)
			}})
		case opDial:
			if l, ok := s.listeners[o.to]; (ok && l.Auto) || o.black {
				continue
			}
			k := "0C " + o.from + ">" + o.to
			if seenW[k] {
				continue
			}
			seenW[k] = true
			acts = append(acts, action{k, func() { s.completeDial(o) }})
		case opAccept:
			if len(o.l.queue) > 0 && !o.l.Auto {
				acts = append(acts, action{"0A " + string(o.l.addr), func() {
					o.rc = o.l.queue[0]
					o.l.queue = o.l.queue[1:]
					s.J.Add(s, "accept", "%s", o.rc.Name)
					s.finish(o)
				}})
			}
		case opWrite:
			if o.e.Auto || o.e.HoldWrites {
				continue
			}
			k := "0W " + opKey(o)
			if seenW[k] {
				continue
			}
			seenW[k] = true
			acts = append(acts, action{k, func() { s.grantWrite(o) }})
		case opRead:
			e := o.e
			if e.Auto || e.HoldDeliver {
				continue
			}
			if len(e.inflight) > 0 {
				acts = append(acts, action{"0D " + e.Name, func() { s.deliver(e, o) }})
			} else if e.rstPending || e.finPending {
				acts = append(acts, action{"0E " + e.Name, func() {
					if e.rstPending {
						o.err = errReset
						s.J.Add(s, "rst", "%s", e.Name)
					} else {
						o.err = io.EOF
						s.J.Add(s, "eof", "%s", e.Name)
					}
					e.EOFSeen = true
					s.finish(o)
				}})
			}
		}
	}
	for _, e := range s.ends {
		e := e
		if !e.Owned || e.Auto || e.HoldDeliver || e.Closed {
			continue
		}
		if len(e.inflight) > 0 {
			acts = append(acts, action{"0D " + e.Name, func() { s.deliver(e, nil) }})
		} else if (e.rstPending || e.finPending) && !e.EOFSeen {
			acts = append(acts, action{"0E " + e.Name, func() {
				e.EOFSeen = true
				if e.rstPending {
					s.J.Add(s, "rst", "%s", e.Name)
				} else {
					s.J.Add(s, "eof", "%s", e.Name)
				}
				if e.OnEOF != nil {
					e.OnEOF(e.rstPending)
				}
			}})
		}
	}
	for _, a := range s.actors {
		a := a
		if a.enabled() {
			acts = append(acts, action{"1" + a.key, a.do})
		}
	}
	sort.SliceStable(acts, func(i, j int) bool { return acts[i].key < acts[j].key })
	return acts
}

func (s *Sim) completeDial(o *op) {
	verdict := DialDefault
	if s.DialHook != nil {
		verdict = s.DialHook(o.network, o.from, o.to)
	}
	rec := DialRec{Seq: s.Seq, From: o.from, To: o.to, Network: o.network}
	lkey := o.to
	if o.network == "udp" || o.network == "udp4" || o.network == "udp6" {
		lkey = "udp:" + o.to
	}
	l, ok := s.listeners[lkey]
	if !ok && lkey != o.to && verdict == DialDefault {
		// connecting a UDP socket always succeeds; datagrams to nowhere vanish
		a, b := s.pair(s.uniq(o.from+">"+lkey), o.from, o.to, false)
		b.Owned = true
		a.Datagram = true
		rec.Verdict, rec.End = "udp-void", a
		s.DialLog = append(s.DialLog, rec)
		s.J.Add(s, "dial", "%s udp to nowhere", a.Name)
		o.rc = a
		s.finish(o)
		return
	}
	switch {
	case verdict == DialBlackhole:
		rec.Verdict = "blackhole"
		s.DialLog = append(s.DialLog, rec)
		s.J.Add(s, "dial", "%s>%s blackhole", o.from, o.to)
		s.Count("fault.dial.blackhole")
		// stays parked until its deadline
		o.black = true
		if o.t.IsZero() {
			o.t = time.Now().Add(127 * time.Second) // kernel-ish connect timeout
		}
		return
	case verdict == DialLocalFailure && s.DialLocalErr != nil:
		s.Count("fault.dial.local_failure")
		rec.Verdict = "local-failure"
		s.DialLog = append(s.DialLog, rec)
		s.J.Add(s, "dial", "%s>%s fails locally: %v", o.from, o.to, s.DialLocalErr)
		o.err = s.DialLocalErr
		s.finish(o)
		return
	case verdict == DialRefuse || !ok || l.closed:
		if verdict == DialRefuse {
			s.Count("fault.dial.refuse")
		}
		rec.Verdict = "refused"
		s.DialLog = append(s.DialLog, rec)
		s.J.Add(s, "dial", "%s>%s refused", o.from, o.to)
		o.err = errRefused
		s.finish(o)
		return
	}
	a, b := s.pair(s.uniq(o.from+">"+o.to), o.from, o.to, false)
	b.Stream = l.Stream
	a.Stream = l.StreamBack
	a.Datagram = lkey != o.to
	rec.Verdict = "ok"
	rec.End = a
	s.DialLog = append(s.DialLog, rec)
	s.J.Add(s, "dial", "%s ok", a.Name)
	s.deliverToListener(l, b)
	o.rc = a
	s.finish(o)
}

func (s *Sim) grantWrite(o *op) {
	e := o.e
	if e.Peer.Closed {
		o.err = errPipe
		o.n = o.off
		s.J.Add(s, "write-epipe", "%s", e.Name)
		s.finish(o)
		return
	}
	if rest := len(o.data) - o.off; s.PartialWrites && rest > 1 && s.Tape.Bool(1, 3) {
		// the socket buffer takes only part of the write: the caller stays blocked with the
		// rest (and gets a short count if its write deadline passes meanwhile)
		k := 1 + s.Tape.Choose(rest-1)
		e.Peer.inflight = append(e.Peer.inflight, seg{o.data[o.off : o.off+k]})
		e.BytesOut += k
		s.J.AddData(s, "write-part", e, o.data[o.off:o.off+k])
		o.off += k
		s.Count("fault.write.partial")
		return
	}
	e.Peer.inflight = append(e.Peer.inflight, seg{o.data[o.off:]})
	e.BytesOut += len(o.data) - o.off
	e.WritesOut++
	s.J.AddData(s, "write", e, o.data[o.off:])
	o.off = len(o.data)
	o.n = len(o.data)
	s.finish(o)
}

// deliver hands in-flight bytes to a parked reader (o != nil) or to an owned sink.
func (s *Sim) deliver(e *End, o *op) {
	max := 1 << 30
	if o != nil {
		max = o.max
	}
	var b []byte
	if e.Stream {
		tot := e.InFlight()
		if tot > max {
			tot = max
		}
		k := tot
		// option 0 = everything available (benign); otherwise a strict prefix
		if tot > 1 && s.Tape.Bool(1, 2) {
			k = 1 + s.Tape.Choose(tot-1)
			s.Count("fault.seg.split")
		}
		if len(e.inflight) > 1 && k > len(e.inflight[0].b) {
			s.Count("fault.seg.coalesce")
		}
		b, _ = e.take(k, false)
	} else {
		b, _ = e.take(max, true)
	}
	s.J.AddData(s, "deliver", e, b)
	if o != nil {
		o.data, o.n = b, len(b)
		s.finish(o)
	} else {
		s.sink(e, b)
	}
}

// Step performs one scheduler action; false means nothing is enabled now.
func (s *Sim) Step() bool {
	s.settle()
	if s.Viol != nil {
		return false
	}
	acts := s.actions()
	if len(acts) == 0 {
		return false
	}
	i := s.Tape.Choose(len(acts))
	s.Seq++
	s.Steps++
	s.J.shape(acts[i].key)
	acts[i].f()
	s.settle()
	for _, inv := range s.invs {
		if v := inv(); v != nil && s.Viol == nil {
			v.Seq, v.SimMS = s.Seq, s.Now().Milliseconds()
			s.Viol = v
			s.J.Add(s, "VIOLATION", "%s/%s %s", v.Oracle, v.Sig, v.Msg)
		}
	}
	if s.stepHook != nil {
		s.stepHook()
	}
	return true
}

type StopReason int

const (
	StopCond StopReason = iota
	StopIdle
	StopSteps
	StopViolation
)

// Run steps until cond() holds, maxSteps actions were taken, a violation was recorded, or
// nothing has been enabled for maxIdle of simulated time.
func (s *Sim) Run(cond func() bool, maxSteps int, maxIdle time.Duration) StopReason {
	idle := time.Duration(0)
	q := time.Millisecond
	for n := 0; n < maxSteps; {
		if s.Viol != nil {
			return StopViolation
		}
		s.settle()
		if cond != nil && cond() {
			return StopCond
		}
		if s.Step() {
			n++
			idle, q = 0, time.Millisecond
			continue
		}
		if s.Viol != nil {
			return StopViolation
		}
		if idle >= maxIdle {
			return StopIdle
		}
		d := q
		if idle+d > maxIdle {
			d = maxIdle - idle
		}
		if nd := s.nextDeadline(); !nd.IsZero() {
			if until := time.Until(nd); until > 0 && until < d {
				d = until
			}
		}
		if d <= 0 {
			d = time.Millisecond
		}
		time.Sleep(d)
		idle += d
		if q < 2*time.Second {
			q *= 2
		}
		s.settle()
		s.expire()
	}
	return StopSteps
}

// Advance lets simulated time pass (clock jump): timers of the system under test that fall
// inside the interval fire in order.
func (s *Sim) Advance(d time.Duration) {
	s.J.Add(s, "clock", "+%v", d)
	s.Count("fault.clock.jump")
	time.Sleep(d)
	s.settle()
	s.expire()
}

// Drain runs with FIFO-benign choices are still tape-driven but faults lifted: callers
// clear Hold* flags first.
func (s *Sim) Quiesce(maxSteps int, maxIdle time.Duration) StopReason {
	return s.Run(nil, maxSteps, maxIdle)
}

// PendingSummary lists parked ops (diagnostics and leak checks).
func (s *Sim) PendingSummary() []string {
	var out []string
	for _, o := range s.pending {
		out = append(out, opKey(o))
	}
	sort.Strings(out)
	return out
}

// PendingWriteData returns the payloads of writes parked on ends whose name has the prefix.
func (s *Sim) PendingWriteData(prefix string) [][]byte {
	var out [][]byte
	for _, o := range s.pending {
		if o.kind == opWrite && o.e != nil && strings.HasPrefix(o.e.Name, prefix) {
			out = append(out, o.data[o.off:])
		}
	}
	return out
}

// PendingDials is the number of connection attempts of the system under test that the
// scheduler has not completed yet.
func (s *Sim) PendingDials() int {
	n := 0
	for _, o := range s.pending {
		if o.kind == opDial && !o.black {
			n++
		}
	}
	return n
}

// HasPending reports whether a goroutine is parked in an op of the given kind on an end
// whose name has the prefix.
func (s *Sim) HasPending(kind, prefix string) bool {
	for _, o := range s.pending {
		if o.e != nil && kindNames[o.kind] == kind && strings.HasPrefix(o.e.Name, prefix) {
			return true
		}
	}
	return false
}

// Listening reports whether a goroutine-backed listener has a parked Accept.
func (s *Sim) Listening(addr string) bool {
	for _, o := range s.pending {
		if o.kind == opAccept && string(o.l.addr) == addr {
			return true
		}
	}
	return false
}

var ErrRefused error = errRefused

func IsTimeout(err error) bool {
	var ne net.Error
	return errors.As(err, &ne) && ne.Timeout()
}
