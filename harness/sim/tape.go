package sim

import "io"

// Tape is the single source of every choice in a run: workload, configuration, fault
// placement, schedule and byte patterns.  A fresh run draws from a splitmix64 stream
// seeded from the run seed and records every draw; a replay reads the recorded values
// (0 = most benign option once the recording is exhausted).
type Tape struct {
	state  uint64
	Rec    []uint32 // every value drawn so far (value after reduction modulo n)
	replay []uint32
	isRep  bool
	pos    int
	// Log, when set, receives every drawn value at once (4 bytes, little endian, unbuffered)
	// so that the tape of a run that kills its process can be recovered by the driver
	Log io.Writer
	// Limit, when >0, makes Choose return 0 after that many draws (step caps in shrinking)
}

func NewTape(seed uint64) *Tape { return &Tape{state: seed*0x9E3779B97F4A7C15 + 0x1234567} }

func ReplayTape(vals []uint32) *Tape { return &Tape{replay: vals, isRep: true} }

func (t *Tape) next() uint64 {
	t.state += 0x9E3779B97F4A7C15
	z := t.state
	z = (z ^ (z >> 30)) * 0xBF58476D1CE4E5B9
	z = (z ^ (z >> 27)) * 0x94D049BB133111EB
	return z ^ (z >> 31)
}

// Choose returns a value in [0,n). n<=1 returns 0 without consuming the tape.
func (t *Tape) Choose(n int) int {
	if n <= 1 {
		return 0
	}
	var v uint32
	if t.isRep {
		if t.pos < len(t.replay) {
			v = t.replay[t.pos] % uint32(n)
		}
	} else {
		v = uint32(t.next() % uint64(n))
	}
	t.pos++
	t.Rec = append(t.Rec, v)
	if t.Log != nil {
		t.Log.Write([]byte{byte(v), byte(v >> 8), byte(v >> 16), byte(v >> 24)})
	}
	return int(v)
}

// Pos is the number of draws so far.
func (t *Tape) Pos() int { return t.pos }

// Bool is true with probability num/den. Value 0 (benign) maps to false.
func (t *Tape) Bool(num, den int) bool { return t.Choose(den) >= den-num }

// Range returns a value in [lo,hi].
func (t *Tape) Range(lo, hi int) int { return lo + t.Choose(hi-lo+1) }

// Weighted picks an index with the given integer weights; index 0 is the benign one.
func (t *Tape) Weighted(w ...int) int {
	tot := 0
	for _, x := range w {
		tot += x
	}
	v := t.Choose(tot)
	for i, x := range w {
		if v < x {
			return i
		}
		v -= x
	}
	return len(w) - 1
}

// Bytes returns n bytes derived from a single draw, so that byte patterns cost one tape
// entry and shrink as a unit. tag makes streams self-identifying.
func (t *Tape) Bytes(n int, tag byte) []byte {
	s := uint64(t.Choose(1<<30)) | uint64(tag)<<32
	out := make([]byte, n)
	for i := range out {
		s += 0x9E3779B97F4A7C15
		z := s
		z = (z ^ (z >> 30)) * 0xBF58476D1CE4E5B9
		z = (z ^ (z >> 27)) * 0x94D049BB133111EB
		out[i] = byte(z ^ (z >> 31))
	}
	return out
}
