//go:build !race

package sim

const RaceEnabled = false

func raceOff() {}
func raceOn()  {}
