package sim

import (
	"fmt"
	"hash/fnv"
	"strings"
)

// Journal is the record of a run: every scheduler action with connection role, byte count
// and payload hash, every oracle observation, and the simulated time.  Its running hash is
// what the determinism self-test compares; its shape hash (action kinds and roles only) is
// the "distinct interleaving" measure reported in evidence.
type Journal struct {
	Lines   []string
	Keep    int // max lines kept (0 = all)
	Dump    bool
	dropped int
	sum     uint64
	shp     uint64
	N       int
}

func newJournal() *Journal {
	return &Journal{Keep: 600, sum: 14695981039346656037, shp: 14695981039346656037}
}

func mix(h uint64, s string) uint64 {
	for i := 0; i < len(s); i++ {
		h ^= uint64(s[i])
		h *= 1099511628211
	}
	h ^= 0xff
	h *= 1099511628211
	return h
}

func (j *Journal) add(line string) {
	j.N++
	j.sum = mix(j.sum, line)
	if j.Keep > 0 && len(j.Lines) >= j.Keep {
		j.Lines = j.Lines[1:]
		j.dropped++
	}
	j.Lines = append(j.Lines, line)
}

func (j *Journal) Add(s *Sim, kind string, format string, a ...any) {
	j.add(fmt.Sprintf("%06d %9.3fs %-10s %s", s.Seq, s.Now().Seconds(), kind, fmt.Sprintf(format, a...)))
}

func (j *Journal) AddData(s *Sim, kind string, e *End, b []byte) {
	name := e.Name
	if e.Opaque {
		// payloads on this connection contain bytes that legitimately differ between
		// executions of the same schedule (e.g. a gob-encoded Go map inside an encrypted
		// session cookie): only the event is journaled
		// (lengths vary by a few bytes with the encoding order, so they are left out too)
		j.add(fmt.Sprintf("%06d %9.3fs %-10s %s", s.Seq, s.Now().Seconds(), kind, name))
	} else {
		h := fnv.New32a()
		h.Write(b)
		j.add(fmt.Sprintf("%06d %9.3fs %-10s %s n=%d h=%08x", s.Seq, s.Now().Seconds(), kind, name, len(b), h.Sum32()))
	}
	if j.Dump && kind != "deliver" {
		// payload dump for debugging only; not part of the hash
		t := b
		if len(t) > 2000 {
			t = t[:2000]
		}
		j.Lines = append(j.Lines, fmt.Sprintf("        | %q", t))
	}
}

// Note records an oracle observation.
func (s *Sim) Note(format string, a ...any) { s.J.Add(s, "note", format, a...) }

func (j *Journal) shape(actionKey string) {
	// strip per-run numbers so that the shape is about kinds and roles
	k := actionKey
	if i := strings.IndexByte(k, '#'); i >= 0 {
		k = k[:i]
	}
	if len(k) > 2 && k[1] == 'W' {
		// "0W write <name> <len> <hash>" -> keep name only
		f := strings.Fields(k)
		if len(f) >= 3 {
			k = f[0] + " " + f[2]
		}
	}
	j.shp = mix(j.shp, k)
}

func (j *Journal) Hash() string  { return fmt.Sprintf("%016x", j.sum) }
func (j *Journal) Shape() string { return fmt.Sprintf("%016x", j.shp) }

func (j *Journal) Tail(n int) []string {
	if n > len(j.Lines) {
		n = len(j.Lines)
	}
	return j.Lines[len(j.Lines)-n:]
}
