//go:build race

package sim

import "runtime"

const RaceEnabled = true

//go:norace
func raceOff() { runtime.RaceDisable() }

//go:norace
func raceOn() { runtime.RaceEnable() }
