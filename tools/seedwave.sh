#!/bin/sh
# usage: seedwave.sh <out-root> [PROP ...]   -- runs seedcheck.sh for every <out-root>/<PROP>.out/m*/
# and prints one summary line per change: DETECTED / MISSED / INVALID
ROOT=$1; shift
PROPS="$@"
[ -z "$PROPS" ] && PROPS=$(ls -d $ROOT/*.out 2>/dev/null | xargs -n1 basename | sed 's/.out$//')
for P in $PROPS; do
  for D in $ROOT/$P.out/m*; do
    [ -f $D/patch.diff ] || continue
    PKG=$(grep -m1 -o 'DEMO_DIR: *[^ `]*' $D/README.md 2>/dev/null | sed 's/DEMO_DIR: *//')
    [ -z "$PKG" ] && PKG=$(grep -m1 -oE 'cmd/(rdpgw|auth)(/[a-z0-9/]+)?' $D/README.md | head -1)
    PKG=${PKG%/}
    OUT=$(/verif/tools/seedcheck.sh $P $D $PKG 2>&1)
    HEAD=$(echo "$OUT" | grep "^SEED" | head -1)
    if echo "$HEAD" | grep -q "demo-on-clean-exit=0 build=0 demo-with-patch-exit=[1-9][0-9]* baseline-with-patch-exit=0"; then OK=valid; else OK=INVALID; fi
    if echo "$OUT" | grep -q "^VIOLATION"; then RES=DETECTED; else RES=MISSED; fi
    CLS=$(echo "$OUT" | grep -o "class=[^ ]*" | sort -u | head -3 | tr '\n' ' ')
    echo "$P $(basename $D) pkg=$PKG $OK $RES $CLS"
    echo "$OUT" > $D/seedcheck.log
  done
done
