#!/bin/sh
# usage: mutrun.sh <PROP> <dir-with-patch.diff> [vcheck args...]
# applies the change in a scratch worktree (never in /repo) and runs the property's check on it
P=$1; SRC=$2; shift 2
W=/tmp/mutrun-$$
git -C /repo worktree add -q --detach $W HEAD || exit 2
trap 'git -C /repo worktree remove --force $W >/dev/null 2>&1; rm -rf $W' EXIT
(cd $W && git apply $SRC/patch.diff) || exit 2
cd /verif && VERIF_REPO=$W ./bin/vcheck -property $P -noevidence "$@" 2>&1 | grep -E "^VIOLATION|class=|violations=|INFRA|KNOWN|NOTE" | cut -c1-400 | head -12
