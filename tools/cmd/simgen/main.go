package main

import (
	"fmt"
	"os"

	"verif/tools/simgen"
)

func main() {
	if len(os.Args) != 3 {
		fmt.Fprintln(os.Stderr, "usage: simgen <repo> <dst>")
		os.Exit(2)
	}
	res, err := simgen.Generate(os.Args[1], os.Args[2])
	if res != nil {
		fmt.Println(res.String())
	}
	if err != nil {
		fmt.Fprintln(os.Stderr, err)
		os.Exit(2)
	}
}
