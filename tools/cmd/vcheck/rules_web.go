package main

func init() {
	propMeta["C02"] = meta{
		Level:       "exploration",
		Rule:        "one run = one booted gateway; a genuine cookie is obtained through the real login + download flow (its exp-iat <= 300 s is checked) and 4-11 cookie trials follow, each on a fresh tunnel (handshake + tunnel-create, websocket or legacy): the real token, a harness-minted twin, empty/random strings, single-character and single-bit mutations of header/payload/signature, re-signing under another key, alg none/HS384/HS512, an RS256 header over an HMAC, changed or missing iss, exp in the past, nbf/iat in the future, missing exp, JSON-serialised and nested JWS, unknown embedded access token, harmless extra header; crossed with the IdP condition for the embedded access token (valid, revoked between mint and use, 401, 5xx, garbage body, connection refused, cut mid-response) and clock jumps of 0-150 s between trials (mint-to-use age up to ~25 min); oracle: status 0 iff {MAC verifies under the configured key (verified by the harness's own HMAC) and alg == HS256 compact and iss == rdpgw and now < exp+60 s and the IdP honours the token at that moment}, refusals carry E_PROXY_COOKIE_AUTHENTICATION_ACCESS_DENIED, every acceptance is preceded by a userinfo request; non-trivial = >=4 trials; distinct = distinct trial sequence",
		Components:  comp(nil, nil),
		Assumptions: append([]string{"|now-(exp+60s)| < 2 s and tokens with a valid MAC but no exp are don't-care", "a black-holed IdP is not generated (no liveness claim)"}, commonAssumptions...),
	}
	propMeta["C12"] = meta{
		Level:       "exploration",
		Rule:        "one run = one booted gateway under a drawn download policy (selection mode roundrobin/unsigned/any/signed, host list with/without the user placeholder, host query parameter absent/listed/unlisted or a signed/forged/expired/wrong-issuer/plain query token, user-name claim with/without domain, IdP sub equal or different, SplitUserDomain, UsernameTemplate, NoUsername, client address as peer or X-Forwarded-For) and a session that is new, unauthenticated or logged in through the real callback against the stub IdP; oracle: not logged in => 302 to the provider and no gatewayaccesstoken anywhere; logged in => 400 when the policy refuses, else a file (independent line parser) whose gatewayhostname is the configured one, whose full address is in the policy result, whose token (decoded and MAC-checked without the repository) claims exactly {that host, the user (domain removed when splitting), the requesting client address, the session's IdP access token, iss rdpgw, exp <= now+300 s}, whose username/domain lines follow template/suppression; then host and token are replayed unmodified from the same address through a real tunnel (ws or legacy, after 0-240 s) and must be accepted; non-trivial = request evaluated; distinct = distinct policy/request tuple",
		Components:  comp(nil, nil),
		Assumptions: append([]string{"signed mode: the replay leg is skipped (the tunnel allows nothing in that mode, C03)"}, commonAssumptions...),
	}
	propMeta["C13"] = meta{
		Level:       "fault_enumeration",
		Rule:        "callback failure point (none, unknown state, state older than 2 min via clock jump, IdP refuses the code, no id_token, bad signature, wrong issuer, wrong audience, expired ID token, no user-name claim, IdP 5xx, garbage token response, code already used, IdP unreachable) x session store (cookie, file) x (first callback | session that already exists) are enumerated by seed (56 cells, 50 visits each per quick run); user-name claim name and value are drawn; oracle: after a failing callback the next /connect with the browser's jar is a redirect to the provider, never a file; after a good callback the file's user is the claim, 1-3 later requests (0-20 s apart) still yield a file for the same user, and a mutated (single character, truncated, extended, random) or foreign (second instance with regenerated keys) session cookie never yields a file; non-trivial = every run; distinct = distinct cell/claim/mutation tuple",
		Components:  comp(nil, nil),
		Assumptions: append([]string{"state age within 2 s of 120 s is not generated", "a character flip that leaves the decoded cookie bytes unchanged (base64 slack) is the same cookie"}, commonAssumptions...),
	}
	propMeta["C15"] = meta{
		Level:       "exploration",
		Rule:        "one run = a gateway in encrypt-only or sign-and-encrypt user-token mode; a token is minted through the real login + download flow ({{ token }} in the user-name template) and one trial is made against /tokeninfo: fresh token, token after a 0-600 s clock jump, single-character mutation of one of the five JWE segments, token under another encryption key, token of the other mode under the right encryption key, wrong issuer or expired under the right keys, inner signature under another key, plain signed JWT, random string, missing/empty parameter, non-GET, restart of the gateway into the other key mode; forged tokens are built with the harness's own A128CBC-HS256/HS256 code; oracle: 200 with sub == user iff minted by this configuration and now < exp+60 s, else 403 (400, 405) and no claims in the body; the user name is not readable from the token text; non-trivial = every run; distinct = mode/user/trial kind",
		Components:  comp(nil, nil),
		Assumptions: append([]string{"age within 2 s of exp+60 s is don't-care", "a character flip that leaves the decoded segment bytes unchanged is the same token"}, commonAssumptions...),
	}
}
