// vcheck is the check driver: it regenerates the simulation seams from /repo's current
// working tree, builds the worker binary, fans seeds out to worker processes, classifies
// worker deaths, confirms and shrinks failures, writes replay and evidence files and applies
// the known-findings list.  Exit codes: 0 held, 1 violation, 2 infrastructure.
package main

import (
	"bufio"
	"bytes"
	"encoding/json"
	"flag"
	"fmt"
	"os"
	"os/exec"
	"path/filepath"
	"regexp"
	"runtime"
	"sort"
	"strconv"
	"strings"
	"sync"
	"time"

	"verif/tools/simgen"
)

type Violation struct {
	Oracle string `json:"oracle"`
	Sig    string `json:"sig"`
	Msg    string `json:"msg"`
	Seq    uint64 `json:"seq"`
	SimMS  int64  `json:"sim_ms"`
}

type Result struct {
	Seed      uint64            `json:"seed"`
	Scenario  string            `json:"scenario"`
	Prop      string            `json:"prop"`
	Violation *Violation        `json:"violation,omitempty"`
	Infra     string            `json:"infra,omitempty"`
	Journal   string            `json:"journal"`
	Shape     string            `json:"shape"`
	Steps     int               `json:"steps"`
	SimMS     int64             `json:"sim_ms"`
	Stats     map[string]int    `json:"stats,omitempty"`
	Reach     bool              `json:"reach"`
	Sample    string            `json:"sample,omitempty"`
	TapeLen   int               `json:"tape_len"`
	Tape      []uint32          `json:"tape,omitempty"`
	Tail      []string          `json:"tail,omitempty"`
	Inconcl   string            `json:"inconclusive,omitempty"`
	CaseKey   string            `json:"case_key,omitempty"`
	Crash     string            `json:"crash,omitempty"` // worker died during this run: stderr signature
	Args      map[string]string `json:"-"`
	Batch     []uint64          `json:"-"` // seeds the worker process ran before (and including) this one
	Race      bool              `json:"-"` // came from a race-detector worker
}

type Job struct {
	Prop     string            `json:"prop"`
	Scenario string            `json:"scenario"`
	Tier     string            `json:"tier"`
	Seeds    []uint64          `json:"seeds"`
	Tape     []uint32          `json:"tape,omitempty"`
	Verbose  bool              `json:"verbose"`
	Out      string            `json:"out"`
	Args     map[string]string `json:"args,omitempty"`
	MaxWall  int               `json:"max_wall_s"`
	KeepTape bool              `json:"keep_tape"`
	TapeLog  string            `json:"tape_log,omitempty"`
	// RunTimeout: the worker's real-time watchdog limit per run in seconds (0 = default 40)
	RunTimeout int `json:"run_timeout_s,omitempty"`
}

type Replay struct {
	// PrefixSeeds: runs executed in the same worker process before the failing one; needed
	// when the failure depends on state the system under test keeps in package-level
	// variables across gateway instances of one process
	PrefixSeeds []uint64          `json:"prefix_seeds,omitempty"`
	Property    string            `json:"property"`
	Scenario    string            `json:"scenario"`
	Seed        uint64            `json:"seed"`
	Tape        []uint32          `json:"tape"`
	Args        map[string]string `json:"args,omitempty"`
	Race        bool              `json:"race,omitempty"`
	Oracle      string            `json:"oracle"`
	Sig         string            `json:"sig"`
	Msg         string            `json:"msg"`
	Journal     string            `json:"journal_hash"`
	Crash       string            `json:"crash,omitempty"`
	Tree        string            `json:"repo_tree"`
	Shrunk      string            `json:"shrunk,omitempty"`
	Tail        []string          `json:"journal_tail,omitempty"`
}

var noEvidence bool
var selftestInfo map[string]any
var lateSelftest func() string
var retriedHangs int

var (
	verifDir = "/verif"
	repoDir  = "/repo"
	scratch  string
	goBin    string
)

func die2(format string, a ...any) {
	fmt.Fprintf(os.Stderr, "vcheck: INFRA: "+format+"\n", a...)
	cleanup()
	os.Exit(2)
}

func cleanup() {
	if scratch != "" && os.Getenv("VCHECK_KEEP") == "" {
		os.RemoveAll(scratch)
	}
}

func goEnv() []string {
	env := os.Environ()
	env = append(env, "GOFLAGS=-mod=mod", "GOPROXY=off", "GOSUMDB=off", "GOTOOLCHAIN=local", "CGO_ENABLED=1")
	return env
}

func findGo() string {
	if p, err := exec.LookPath("go1.26.8"); err == nil {
		return p
	}
	if _, err := os.Stat("/opt/veriftools/go1.26.8/bin/go"); err == nil {
		return "/opt/veriftools/go1.26.8/bin/go"
	}
	die2("go1.26.8 toolchain not found")
	return ""
}

// build regenerates the seams from the repository's working tree and builds the worker.
func build(race bool) (worker string, genInfo string) {
	var err error
	scratch, err = os.MkdirTemp("", "vcheck-")
	if err != nil {
		die2("mkdtemp: %v", err)
	}
	res, err := simgen.Generate(repoDir, filepath.Join(scratch, "repo"))
	if err != nil {
		die2("simgen: %v", err)
	}
	h := filepath.Join(scratch, "harness")
	if out, err := exec.Command("cp", "-r", filepath.Join(verifDir, "harness"), h).CombinedOutput(); err != nil {
		die2("copy harness: %v %s", err, out)
	}
	if b, err := os.ReadFile(filepath.Join(repoDir, "go.sum")); err == nil {
		os.WriteFile(filepath.Join(h, "go.sum"), b, 0o644)
	}
	worker = filepath.Join(scratch, "worker.test")
	args := []string{"test", "-c", "-trimpath", "-o", worker}
	if race {
		args = append(args, "-race")
	}
	args = append(args, ".")
	cmd := exec.Command(goBin, args...)
	cmd.Dir = h
	cmd.Env = goEnv()
	t0 := time.Now()
	if out, err := cmd.CombinedOutput(); err != nil {
		die2("the harness does not build against the current tree of %s (simgen: %s):\n%s", repoDir, res, out)
	}
	return worker, fmt.Sprintf("%s; build %.1fs race=%v", res, time.Since(t0).Seconds(), race)
}

func treeHash() string {
	out, err := exec.Command("sh", "-c", "cd "+repoDir+" && (git rev-parse HEAD; git diff HEAD | sha1sum | cut -c1-12) | tr '\\n' ' '").Output()
	if err != nil {
		return "unknown"
	}
	return strings.TrimSpace(string(out))
}

// runWorker executes one job in a fresh process and parses its output file.
func runWorker(worker string, job *Job, race bool, timeout time.Duration) (results []*Result, crashed *Result, stderrTail string, err error) {
	jf, _ := os.CreateTemp(scratch, "job-*.json")
	of := jf.Name() + ".out"
	job.Out = of
	jb, _ := json.Marshal(job)
	jf.Write(jb)
	jf.Close()
	defer os.Remove(jf.Name())
	defer os.Remove(of)
	cmd := exec.Command(worker, "-test.run", "^TestWorker$", "-test.timeout", "0")
	os.MkdirAll(filepath.Join(scratch, "tmp"), 0o755)
	cmd.Env = append(os.Environ(), "VCHECK_JOB="+jf.Name(), "GODEBUG=randautoseed=0", "GOGC=off", "GOTRACEBACK=all", "TMPDIR="+filepath.Join(scratch, "tmp"))
	if race {
		cmd.Env = append(cmd.Env, "GORACE=halt_on_error=0 exitcode=0 history_size=3")
	}
	var stderr bytes.Buffer
	cmd.Stdout = &stderr
	cmd.Stderr = &stderr
	done := make(chan error, 1)
	if err := cmd.Start(); err != nil {
		return nil, nil, "", err
	}
	go func() { done <- cmd.Wait() }()
	var werr error
	timedOut := false
	select {
	case werr = <-done:
	case <-time.After(timeout):
		cmd.Process.Kill()
		werr = <-done
		timedOut = true
	}
	f, ferr := os.Open(of)
	var started uint64
	var haveStart, doneSeen bool
	hang := false
	if ferr == nil {
		sc := bufio.NewScanner(f)
		sc.Buffer(make([]byte, 1<<20), 1<<28)
		for sc.Scan() {
			ln := sc.Text()
			switch {
			case strings.HasPrefix(ln, "START "):
				started, _ = strconv.ParseUint(ln[6:], 10, 64)
				haveStart = true
			case strings.HasPrefix(ln, "RESULT "):
				var r Result
				if e := json.Unmarshal([]byte(ln[7:]), &r); e == nil {
					r.Args = job.Args
					r.Race = race
					if r.Violation != nil && len(results) > 0 {
						r.Batch = append([]uint64{}, job.Seeds[:len(results)+1]...)
					}
					results = append(results, &r)
					haveStart = false
				}
			case ln == "DONE" || strings.HasPrefix(ln, "STOP "):
				doneSeen = true
			case strings.HasPrefix(ln, "HANG "):
				hang = true
			}
		}
		f.Close()
	}
	st := stderr.String()
	if hang {
		return results, nil, tailStr(st, 1<<16), &hangError{seed: started, msg: fmt.Sprintf("run seed=%d of %s made no progress (watchdog); goroutine dump follows", started, job.Scenario)}
	}
	if len(st) > 1<<16 {
		st = st[len(st)-(1<<16):]
	}
	if timedOut {
		return results, nil, st, fmt.Errorf("worker timed out after %v (last started seed %d)", timeout, started)
	}
	if race && !hang {
		if sig, n := raceSignature(stderr.String()); sig != "" && len(job.Seeds) == 1 {
			// one run per process under -race: the report belongs to this run
			cr := &Result{Seed: job.Seeds[0], Scenario: job.Scenario, Prop: job.Prop, Crash: sig, Args: job.Args, Race: true}
			if len(results) == 1 {
				cr.Journal, cr.Tape = results[0].Journal, results[0].Tape
				if results[0].Violation != nil {
					return results, nil, st, nil // an oracle failure takes precedence
				}
			}
			_ = n
			return nil, cr, tailStr(raceBlock(stderr.String()), 1<<15), nil
		}
	}
	if !doneSeen || werr != nil {
		if haveStart {
			cr := &Result{Seed: started, Scenario: job.Scenario, Prop: job.Prop, Crash: crashSignature(stderr.String()), Args: job.Args, Race: race}
			return results, cr, st, nil
		}
		if !doneSeen {
			return results, nil, st, fmt.Errorf("worker failed before running anything: %v", werr)
		}
	}
	return results, nil, st, nil
}

var reGoroutineHdr = regexp.MustCompile(`(?m)^goroutine \d+`)

// crashSignature extracts a stable description of why a worker process died.
func crashSignature(stderr string) string {
	lines := strings.Split(stderr, "\n")
	for i, ln := range lines {
		if strings.HasPrefix(ln, "panic: ") || strings.HasPrefix(ln, "fatal error: ") {
			sig := strings.TrimSpace(ln)
			// first repository frame below
			for _, l2 := range lines[i:] {
				l2 = strings.TrimSpace(l2)
				if strings.HasPrefix(l2, "github.com/bolkedebruin/rdpgw/") {
					if j := strings.IndexByte(l2, '('); j > 0 {
						l2 = l2[:j]
					}
					sig += " @ " + strings.TrimPrefix(l2, "github.com/bolkedebruin/rdpgw/")
					break
				}
			}
			if len(sig) > 300 {
				sig = sig[:300]
			}
			return sig
		}
	}
	if strings.Contains(stderr, "WARNING: DATA RACE") {
		return "data race (exit)"
	}
	tail := stderr
	if len(tail) > 300 {
		tail = tail[len(tail)-300:]
	}
	return "worker died: " + strings.ReplaceAll(strings.TrimSpace(tail), "\n", " | ")
}

var reAccess = regexp.MustCompile(`(?m)^(Previous )?([Ww]rite|[Rr]ead|[Aa]tomic [a-z]+) at 0x[0-9a-f]+ by (main )?goroutine`)

// raceSignature looks for race-detector reports in which BOTH accesses have a frame of the
// repository under test (reports inside the simulator or between the simulator and the
// system are not counted) and returns a stable signature naming the two functions.
func raceSignature(stderr string) (string, int) {
	blocks := strings.Split(stderr, "==================")
	n := 0
	first := ""
	for _, b := range blocks {
		if !strings.Contains(b, "WARNING: DATA RACE") {
			continue
		}
		loc := reAccess.FindAllStringIndex(b, -1)
		if len(loc) < 2 {
			continue
		}
		end := strings.Index(b[loc[1][0]:], "\n\n")
		secs := []string{b[loc[0][0]:loc[1][0]]}
		if end >= 0 {
			secs = append(secs, b[loc[1][0]:loc[1][0]+end])
		} else {
			secs = append(secs, b[loc[1][0]:])
		}
		var fns []string
		for _, sec := range secs {
			fn := ""
			for _, ln := range strings.Split(sec, "\n") {
				ln = strings.TrimSpace(ln)
				if strings.HasPrefix(ln, "github.com/bolkedebruin/rdpgw/") && !strings.HasPrefix(ln, "github.com/bolkedebruin/rdpgw/simhook") {
					fn = strings.TrimPrefix(ln, "github.com/bolkedebruin/rdpgw/")
					if i := strings.LastIndex(fn, "("); i > 0 {
						fn = fn[:i]
					}
					break
				}
			}
			if fn != "" {
				fns = append(fns, fn)
			}
		}
		if len(fns) == 2 {
			n++
			sort.Strings(fns)
			sig := "DATA RACE " + fns[0] + " <-> " + fns[1]
			if first == "" || sig < first {
				first = sig
			}
		}
	}
	return first, n
}

func raceBlock(stderr string) string {
	i := strings.Index(stderr, "WARNING: DATA RACE")
	if i < 0 {
		return stderr
	}
	return stderr[i:]
}

type knownFinding struct {
	prop, class, text string
	hit               int
}

func loadKnown() []*knownFinding {
	var out []*knownFinding
	b, err := os.ReadFile(filepath.Join(verifDir, "known-findings.txt"))
	if err != nil {
		return nil
	}
	for _, ln := range strings.Split(string(b), "\n") {
		ln = strings.TrimSpace(ln)
		if ln == "" || strings.HasPrefix(ln, "#") || strings.HasPrefix(ln, "fixed:") {
			continue
		}
		f := strings.Fields(ln)
		if len(f) < 2 || !strings.HasPrefix(f[0], "property=") || !strings.HasPrefix(f[1], "class=") {
			continue
		}
		out = append(out, &knownFinding{prop: strings.TrimPrefix(f[0], "property="), class: strings.TrimPrefix(f[1], "class="), text: strings.Join(f[2:], " ")})
	}
	return out
}

func classOf(r *Result) (oracle, class string) {
	if r.Crash != "" {
		return "crash", "crash/" + crashClass(r.Crash)
	}
	return r.Violation.Oracle, r.Violation.Oracle + "/" + r.Violation.Sig
}

var reAddr = regexp.MustCompile(`0x[0-9a-f]+|\[\d+:\d+\]|\d+`)

// crashClass normalises a crash signature (numbers and addresses removed).
func crashClass(sig string) string {
	s := reAddr.ReplaceAllString(sig, "N")
	s = strings.ReplaceAll(s, " ", "_")
	if len(s) > 160 {
		s = s[:160]
	}
	return s
}

type planItem struct {
	Scenario string
	Args     map[string]string
	Quick    int // runs in the quick tier
	Thorough int
	Race     bool
	PerProc  int // runs per worker process (0 = default)
}

func main() {
	prop := flag.String("property", "", "property id (C01..C20)")
	tier := flag.String("tier", "quick", "quick|thorough")
	seedF := flag.Uint64("seed", 1, "base seed (VERIF_SEED overrides)")
	replay := flag.String("replay", "", "replay file to re-run")
	runsF := flag.Int("runs", 0, "override the number of runs per scenario")
	workers := flag.Int("workers", 0, "worker processes (default: all cores)")
	scenF := flag.String("scenario", "", "restrict to one scenario")
	noShrink := flag.Bool("noshrink", false, "skip minimisation")
	selftest := flag.Bool("selftest", false, "determinism self-test instead of a check")
	flag.BoolVar(&noEvidence, "noevidence", false, "do not write evidence or replay files (cache warm-up)")
	flag.Parse()
	if v := os.Getenv("VERIF_SEED"); v != "" {
		if n, err := strconv.ParseUint(v, 10, 64); err == nil {
			*seedF = n
		}
	}
	if v := os.Getenv("VERIF_TIER"); v == "quick" || v == "thorough" {
		*tier = v
	}
	if v := os.Getenv("VERIF_DIR"); v != "" {
		verifDir = v
	}
	if v := os.Getenv("VERIF_REPO"); v != "" {
		repoDir = v
	}
	goBin = findGo()
	nw := *workers
	if nw <= 0 {
		nw = runtime.NumCPU()
	}
	defer cleanup()

	if *replay != "" {
		os.Exit(doReplay(*replay))
	}
	if *selftest {
		os.Exit(doSelftest(*prop, *scenF, *seedF, *runsF, nw))
	}
	plan, ok := plans[*prop]
	if !ok {
		die2("no check registered for property %q", *prop)
	}
	os.Exit(runCheck(*prop, *tier, *seedF, plan, *runsF, nw, *scenF, *noShrink))
}

// agg folds results as they arrive so that millions of runs do not have to be kept.
type agg struct {
	evals, reach int
	simMS        int64
	stats        map[string]int
	shapes       map[uint64]struct{}
	samples      []any
	failing      []*Result // runs with a violation or a crash (capped)
	nFailing     int
	infra        []string
}

func newAgg() *agg { return &agg{stats: map[string]int{}, shapes: map[uint64]struct{}{}} }

func hash64(s string) uint64 {
	h := uint64(14695981039346656037)
	for i := 0; i < len(s); i++ {
		h ^= uint64(s[i])
		h *= 1099511628211
	}
	return h
}

func (a *agg) add(r *Result) {
	if r.Infra != "" {
		if len(a.infra) < 20 {
			a.infra = append(a.infra, fmt.Sprintf("%s seed=%d: %s", r.Scenario, r.Seed, r.Infra))
		}
		return
	}
	a.evals++
	a.simMS += r.SimMS
	for k, v := range r.Stats {
		a.stats[k] += v
	}
	if r.Reach {
		a.reach++
		if r.CaseKey != "" {
			a.shapes[hash64(r.Scenario+":"+r.CaseKey)] = struct{}{}
		} else {
			a.shapes[hash64(r.Scenario+":"+r.Shape)] = struct{}{}
		}
		if len(a.samples) < 5 && r.Sample != "" && r.Violation == nil && r.Crash == "" {
			a.samples = append(a.samples, map[string]any{"scenario": r.Scenario, "seed": r.Seed, "steps": r.Steps, "case": r.Sample, "faults_fired": r.Stats})
		}
	}
	if r.Violation != nil || r.Crash != "" {
		a.nFailing++
		if len(a.failing) < 5000 {
			a.failing = append(a.failing, r)
		}
	}
}

type workItem struct {
	item  planItem
	seeds []uint64
}

func runCheck(prop, tier string, base uint64, plan []planItem, runsOverride, nw int, onlyScen string, noShrink bool) int {
	t0 := time.Now()
	needRace, needPlain := false, false
	for _, it := range plan {
		if it.Race {
			needRace = true
		} else {
			needPlain = true
		}
	}
	var workerPlain, workerRace, genInfo string
	if needPlain {
		workerPlain, genInfo = build(false)
	}
	if needRace {
		sc := scratch
		workerRace, genInfo = build(true)
		if sc != "" && sc != scratch {
			// keep both scratch dirs under one root for cleanup
			os.Rename(sc, filepath.Join(scratch, "plain"))
			workerPlain = filepath.Join(scratch, "plain", "worker.test")
		}
	}
	fmt.Printf("vcheck property=%s tier=%s seed=%d: %s\n", prop, tier, base, genInfo)

	// build the queue of work items
	var queue []workItem
	total := 0
	for si, it := range plan {
		if onlyScen != "" && it.Scenario != onlyScen {
			continue
		}
		n := it.Quick
		if tier == "thorough" {
			n = it.Thorough
		}
		if runsOverride > 0 {
			n = runsOverride
		}
		per := it.PerProc
		if per <= 0 {
			per = 100
		}
		if it.Race {
			per = 1
		}
		for i := 0; i < n; i += per {
			var seeds []uint64
			for j := i; j < n && j < i+per; j++ {
				seeds = append(seeds, base*1_000_003+uint64(si)*100_000_007+uint64(j))
			}
			queue = append(queue, workItem{it, seeds})
			total += len(seeds)
		}
	}
	var mu sync.Mutex
	ag := newAgg()
	var infra []string
	wallLimit := 25 * time.Minute
	if tier == "thorough" {
		wallLimit = 6 * time.Hour
	}
	deadline := t0.Add(wallLimit)
	qi := 0
	var wg sync.WaitGroup
	for w := 0; w < nw; w++ {
		wg.Add(1)
		go func() {
			defer wg.Done()
			for {
				mu.Lock()
				if qi >= len(queue) || time.Now().After(deadline) || len(infra) > 3 {
					mu.Unlock()
					return
				}
				wi := queue[qi]
				qi++
				mu.Unlock()
				seeds := wi.seeds
				for len(seeds) > 0 {
					worker := workerPlain
					if wi.item.Race {
						worker = workerRace
					}
					job := &Job{Prop: prop, Scenario: wi.item.Scenario, Tier: tier, Seeds: seeds, Args: wi.item.Args}
					to := time.Duration(120+len(seeds)*3) * time.Second
					res, crash, st, err := runWorker(worker, job, wi.item.Race, to)
					mu.Lock()
					for _, r := range res {
						ag.add(r)
					}
					if he, ok := err.(*hangError); ok {
						// the limit is real time: on a machine that is overloaded or frozen for a
						// while every worker trips at once.  The run gets a second chance alone,
						// with a longer limit; only a second stall is reported
						mu.Unlock()
						j2 := &Job{Prop: prop, Scenario: wi.item.Scenario, Tier: tier, Seeds: []uint64{he.seed}, Args: wi.item.Args, RunTimeout: 240}
						res2, crash2, st2, err2 := runWorker(worker, j2, wi.item.Race, 400*time.Second)
						mu.Lock()
						if err2 == nil && (len(res2) == 1 || crash2 != nil) {
							for _, r := range res2 {
								ag.add(r)
							}
							if crash2 != nil {
								crash2.Tail = strings.Split(tailStr(st2, 6000), "\n")
								ag.add(crash2)
							}
							retriedHangs++
							mu.Unlock()
							done := len(res) + 1
							if done >= len(seeds) {
								break
							}
							seeds = seeds[done:]
							continue
						}
						err, st = fmt.Errorf("%v (and again when run alone: %v)", err, err2), st2
					}
					if err != nil {
						infra = append(infra, fmt.Sprintf("%s: %v\n%s", wi.item.Scenario, err, tailStr(st, 3000)))
						mu.Unlock()
						break
					}
					if crash != nil {
						crash.Tail = strings.Split(tailStr(st, 6000), "\n")
						ag.add(crash)
					}
					mu.Unlock()
					// continue with the seeds after the crashed one
					done := len(res)
					if crash != nil {
						done++
					}
					if done == 0 {
						break
					}
					if done >= len(seeds) {
						break
					}
					seeds = seeds[done:]
					if crash == nil {
						break // STOP by wall limit
					}
				}
			}
		}()
	}
	wg.Wait()

	infra = append(infra, ag.infra...)
	// determinism self-test on this property's scenarios (same binary, same tree): every
	// seed in five process/GOMAXPROCS modes must give the same journal hash and verdict.
	// report() runs it when no unlisted violation was found (a violation is reported as such).
	if workerPlain != "" && os.Getenv("VCHECK_NO_SELFTEST") == "" {
		var items []planItem
		for _, it := range plan {
			if !it.Race && (onlyScen == "" || it.Scenario == onlyScen) {
				items = append(items, it)
			}
		}
		n := 6
		if tier == "thorough" {
			n = 40
		}
		lateSelftest = func() string {
			pairs, bad := selftestItems(workerPlain, items, prop, base+17, n, nw, false)
			selftestInfo = map[string]any{"seeds_per_scenario": n, "pairs": pairs, "modes": []string{"batch worker GOMAXPROCS=1", "batch worker GOMAXPROCS=4", "batch worker GOMAXPROCS=16", "fresh process per seed GOMAXPROCS=16", "fresh process per seed GOMAXPROCS=1"}, "mismatches": bad}
			if bad > 0 {
				return fmt.Sprintf("determinism self-test: %d mismatches over %d (scenario, seed) pairs", bad, pairs)
			}
			return ""
		}
	}
	return report(prop, tier, base, t0, ag, infra, total, workerPlain, workerRace, plan, noShrink, genInfo)
}

// hangError: the worker's watchdog saw no progress in one run for its limit of real time.
type hangError struct {
	seed uint64
	msg  string
}

func (e *hangError) Error() string { return e.msg }

func tailStr(s string, n int) string {
	if len(s) > n {
		return s[len(s)-n:]
	}
	return s
}

func report(prop, tier string, base uint64, t0 time.Time, ag *agg, infra []string, total int, workerPlain, workerRace string, plan []planItem, noShrink bool, genInfo string) int {
	known := loadKnown()
	all := ag.failing
	sort.Slice(all, func(i, j int) bool {
		if all[i].Scenario != all[j].Scenario {
			return all[i].Scenario < all[j].Scenario
		}
		return all[i].Seed < all[j].Seed
	})
	raceOf := map[string]bool{}
	for _, it := range plan {
		raceOf[it.Scenario] = it.Race
	}
	stats := ag.stats
	shapes := ag.shapes
	simMS := ag.simMS
	evals, reach := ag.evals, ag.reach
	samples := ag.samples
	foreign := map[string]int{}
	type fail struct {
		r     *Result
		class string
	}
	var fails []fail
	knownHits := map[*knownFinding]*Result{}
	for _, r := range all {
		oracle, class := classOf(r)
		owned := oracle == prop || (oracle == "crash" && crashOwned(prop))
		if !owned {
			foreign[class]++
			continue
		}
		matched := false
		for _, k := range known {
			if k.prop == prop && classMatch(k.class, class) {
				k.hit++
				if knownHits[k] == nil {
					knownHits[k] = r
				}
				matched = true
				break
			}
		}
		if !matched {
			fails = append(fails, fail{r, class})
		}
	}
	if len(infra) == 0 && len(fails) == 0 && lateSelftest != nil {
		if msg := lateSelftest(); msg != "" {
			infra = append(infra, msg)
		}
	}
	if len(infra) > 0 {
		for _, s := range infra {
			fmt.Fprintf(os.Stderr, "vcheck: INFRA: %s\n", s)
		}
		cleanup()
		return 2
	}
	if evals == 0 {
		die2("no runs completed")
	}
	for _, k := range known {
		if k.prop == prop && k.hit > 0 {
			fmt.Printf("KNOWN-FINDING: property=%s class=%s %s (hit in %d runs, e.g. seed %d)\n", prop, k.class, k.text, k.hit, knownHits[k].Seed)
		}
	}
	var fk []string
	for k, n := range foreign {
		fk = append(fk, fmt.Sprintf("%s x%d", k, n))
	}
	sort.Strings(fk)
	for _, s := range fk {
		fmt.Printf("NOTE: oracle of another property fired during %s runs (reported by that property's check): %s\n", prop, s)
	}
	// distinct failure classes: confirm, shrink, write replay
	exit := 0
	seenClass := map[string]bool{}
	nviol := 0
	byClass := map[string][]fail{}
	for _, f := range fails {
		byClass[f.class] = append(byClass[f.class], f)
	}
	for _, f := range fails {
		if seenClass[f.class] {
			nviol++
			continue
		}
		seenClass[f.class] = true
		nviol++
		// a failing run must reproduce alone before it is reported.  The system under test may
		// make choices the seed does not control (a Go select with several ready cases, added
		// by a change to the repository): then some failing runs of the class reproduce and
		// others do not, so up to six are tried before giving up
		var rp *Replay
		ok := false
		tried := 0
		for _, cand := range byClass[f.class] {
			if tried == 6 {
				break
			}
			tried++
			worker := workerPlain
			if cand.r.Race {
				worker = workerRace
			}
			if rp, ok = confirmAndShrink(prop, tier, worker, cand.r.Race, cand.r, cand.class, noShrink); ok {
				f = cand
				if tried > 1 {
					rp.Shrunk += fmt.Sprintf("; %d earlier failing runs of this class did not reproduce alone: the tree under test is not a function of the seed here", tried-1)
				}
				break
			}
		}
		if !ok {
			fmt.Fprintf(os.Stderr, "vcheck: INFRA: failure %s at seed %d (%s) and %d more runs of that class did not reproduce on replay: simulator defect, not reported as a violation\n", f.class, f.r.Seed, f.r.Scenario, tried-1)
			if exit == 0 {
				exit = 2
			}
			continue
		}
		path := filepath.Join(verifDir, "replays", fmt.Sprintf("%s-%s-%d.json", prop, f.r.Scenario, f.r.Seed))
		os.MkdirAll(filepath.Dir(path), 0o755)
		b, _ := json.MarshalIndent(rp, "", " ")
		os.WriteFile(path, b, 0o644)
		fmt.Printf("VIOLATION property=%s replay=%s\n", prop, path)
		fmt.Printf("  class=%s seed=%d scenario=%s tape=%d choices (%s)\n  %s\n", f.class, f.r.Seed, f.r.Scenario, len(rp.Tape), rp.Shrunk, rp.Msg)
		exit = 1
	}
	wall := time.Since(t0).Seconds()
	writeEvidence(prop, tier, base, evals, reach, len(shapes), samples, stats, simMS, wall, nviol, known, foreign, genInfo, total)
	fmt.Printf("vcheck property=%s tier=%s: %d runs (%d reach, %d distinct shapes), %.1fs wall, %.0f sim-s, violations=%d\n", prop, tier, evals, reach, len(shapes), wall, float64(simMS)/1000, nviol)
	cleanup()
	return exit
}

func crashOwned(prop string) bool { return prop == "C09" || prop == "C10" }

func classMatch(pattern, class string) bool {
	if strings.HasSuffix(pattern, "*") {
		return strings.HasPrefix(class, strings.TrimSuffix(pattern, "*"))
	}
	return pattern == class
}

// confirmAndShrink replays the failing run alone in a fresh process, then minimises the tape
// while the same class reproduces.
func confirmAndShrink(prop, tier, worker string, race bool, r *Result, class string, noShrink bool) (*Replay, bool) {
	check := func(tape []uint32) (*Result, bool) {
		job := &Job{Prop: prop, Scenario: r.Scenario, Tier: tier, Seeds: []uint64{r.Seed}, Tape: tape, Args: r.Args, KeepTape: true}
		res, crash, st, err := runWorker(worker, job, race, 120*time.Second)
		if err != nil {
			return nil, false
		}
		var got *Result
		if crash != nil {
			got = crash
			got.Tail = strings.Split(tailStr(st, 4000), "\n")
		} else if len(res) == 1 {
			got = res[0]
		}
		if got == nil || (got.Violation == nil && got.Crash == "") {
			return got, false
		}
		_, c := classOf(got)
		return got, c == class
	}
	var tape []uint32
	if r.Crash == "" {
		tape = r.Tape
	}
	// a crashed run has no recorded tape: replay by seed (tape == nil means fresh draws)
	got, ok := check(tape)
	if !ok {
		// second chance: the failure may depend on package-level state of the system under
		// test that earlier runs of the same worker process left behind (one process serves
		// many tunnels in production too).  Re-run the same sequence of runs in a fresh
		// process; if the same run fails the same way, it is a deterministic multi-run replay.
		if len(r.Batch) > 1 {
			job := &Job{Prop: prop, Scenario: r.Scenario, Tier: tier, Seeds: r.Batch, Args: r.Args, KeepTape: true}
			res, _, _, err := runWorker(worker, job, race, 600*time.Second)
			if err == nil && len(res) == len(r.Batch) {
				last := res[len(res)-1]
				if last.Violation != nil {
					if _, c := classOf(last); c == class && last.Journal == r.Journal {
						rp := mkReplay(prop, r, last, last.Tape, class, race, fmt.Sprintf("not shrunk: reproduces only after the %d preceding runs of the same process (state kept in package-level variables)", len(r.Batch)-1))
						rp.PrefixSeeds = r.Batch[:len(r.Batch)-1]
						return rp, true
					}
				}
			}
		}
		return nil, false
	}
	if tape == nil && got.Crash != "" {
		// a process death leaves no result: run the seed once more with the tape logged to a
		// file draw by draw, and minimise from what was drawn before the death
		tl := filepath.Join(scratch, fmt.Sprintf("tape-%d.bin", r.Seed))
		job := &Job{Prop: prop, Scenario: r.Scenario, Tier: tier, Seeds: []uint64{r.Seed}, Args: r.Args, TapeLog: tl}
		runWorker(worker, job, race, 120*time.Second)
		if b, err := os.ReadFile(tl); err == nil && len(b) >= 4 {
			for i := 0; i+4 <= len(b); i += 4 {
				tape = append(tape, uint32(b[i])|uint32(b[i+1])<<8|uint32(b[i+2])<<16|uint32(b[i+3])<<24)
			}
			if g2, ok2 := check(tape); ok2 {
				got = g2
			} else {
				tape = nil
			}
		}
		if tape == nil {
			return mkReplay(prop, r, got, nil, class, race, "not shrunk: process death leaves no recorded tape; replay by seed"), true
		}
	}
	if tape != nil && r.Crash == "" && got.Journal != r.Journal && r.Journal != "" {
		return nil, false
	}
	best, bestRes := tape, got
	note := "not shrunk"
	if !noShrink && len(tape) > 0 {
		budget := 20 * time.Second
		if tier == "thorough" {
			budget = 4 * time.Minute
		}
		t0 := time.Now()
		tries := 0
		try := func(cand []uint32) bool {
			if time.Since(t0) > budget {
				return false
			}
			tries++
			if g, ok := check(cand); ok {
				bestRes = g
				if g.Tape != nil {
					best = trimZeros(g.Tape)
				} else {
					best = trimZeros(cand)
				}
				return true
			}
			return false
		}
		best = trimZeros(best)
		for pass := 0; pass < 3 && time.Since(t0) < budget; pass++ {
			// delete blocks, large to small
			for bs := len(best) / 2; bs >= 1 && time.Since(t0) < budget; bs /= 2 {
				for i := 0; i+bs <= len(best) && time.Since(t0) < budget; {
					cand := append(append([]uint32{}, best[:i]...), best[i+bs:]...)
					if !try(cand) {
						i += bs
					}
				}
			}
			// zero single values
			for i := 0; i < len(best) && time.Since(t0) < budget; i++ {
				if best[i] == 0 {
					continue
				}
				cand := append([]uint32{}, best...)
				cand[i] = 0
				if !try(cand) {
					cand[i] = best[i] / 2
					if cand[i] != best[i] {
						try(cand)
					}
				}
			}
		}
		note = fmt.Sprintf("shrunk from %d to %d choices in %d replays", len(tape), len(best), tries)
		if tries > 0 {
			// the minimised tape must fail the same way once more in a fresh process
			if g, ok := check(best); ok {
				bestRes = g
			} else {
				best, bestRes = tape, got
				note = fmt.Sprintf("not shrunk: the minimised tape (%d replays) did not fail the same way a second time; the recorded tape is kept", tries)
			}
		}
	}
	return mkReplay(prop, r, bestRes, best, class, race, note), true
}

func trimZeros(t []uint32) []uint32 {
	n := len(t)
	for n > 0 && t[n-1] == 0 {
		n--
	}
	return append([]uint32{}, t[:n]...)
}

func mkReplay(prop string, orig, got *Result, tape []uint32, class string, race bool, note string) *Replay {
	rp := &Replay{Property: prop, Scenario: orig.Scenario, Seed: orig.Seed, Tape: tape, Args: orig.Args, Race: race, Journal: got.Journal, Tree: treeHash(), Shrunk: note, Tail: got.Tail, Crash: got.Crash}
	if got.Violation != nil {
		rp.Oracle, rp.Sig, rp.Msg = got.Violation.Oracle, got.Violation.Sig, got.Violation.Msg
	} else {
		rp.Oracle, rp.Sig, rp.Msg = "crash", crashClass(got.Crash), got.Crash
	}
	return rp
}

func doReplay(path string) int {
	b, err := os.ReadFile(path)
	if err != nil {
		die2("%v", err)
	}
	var rp Replay
	if err := json.Unmarshal(b, &rp); err != nil {
		die2("bad replay file: %v", err)
	}
	worker, info := build(rp.Race)
	fmt.Printf("vcheck replay %s: %s\n", path, info)
	job := &Job{Prop: rp.Property, Scenario: rp.Scenario, Tier: "quick", Seeds: []uint64{rp.Seed}, Tape: rp.Tape, Args: rp.Args, Verbose: true, KeepTape: true}
	if len(rp.PrefixSeeds) > 0 {
		job.Seeds = append(append([]uint64{}, rp.PrefixSeeds...), rp.Seed)
		job.Tape = nil
	}
	res, crash, st, err := runWorker(worker, job, rp.Race, 600*time.Second)
	if len(rp.PrefixSeeds) > 0 && len(res) == len(job.Seeds) {
		res = res[len(res)-1:]
	}
	if err != nil {
		die2("%v\n%s", err, st)
	}
	var got *Result
	if crash != nil {
		got = crash
		fmt.Println(tailStr(st, 5000))
	} else if len(res) == 1 {
		got = res[0]
	}
	if got == nil {
		die2("no result")
	}
	for _, ln := range got.Tail {
		fmt.Println(ln)
	}
	if got.Violation == nil && got.Crash == "" {
		fmt.Printf("replay: no violation (journal %s, recorded %s)\n", got.Journal, rp.Journal)
		return 0
	}
	_, class := classOf(got)
	same := got.Journal == rp.Journal
	fmt.Printf("replay: reproduced class=%s journal_match=%v\n", class, same)
	if got.Violation != nil {
		fmt.Printf("  %s\n", got.Violation.Msg)
	} else {
		fmt.Printf("  %s\n", got.Crash)
	}
	fmt.Printf("VIOLATION property=%s replay=%s\n", rp.Property, path)
	return 1
}

func writeEvidence(prop, tier string, base uint64, evals, reach, distinct int, samples []any, stats map[string]int, simMS int64, wall float64, nviol int, known []*knownFinding, foreign map[string]int, genInfo string, planned int) {
	if noEvidence {
		return
	}
	meta := propMeta[prop]
	faults := map[string]int{}
	probes := map[string]int{}
	for k, v := range stats {
		if strings.HasPrefix(k, "fault.") {
			faults[strings.TrimPrefix(k, "fault.")] = v
		} else if strings.HasPrefix(k, "probe.") {
			probes[strings.TrimPrefix(k, "probe.")] = v
		} else {
			probes[k] = v
		}
	}
	if len(samples) == 0 {
		samples = []any{"no run satisfied the reach predicate"}
	}
	var kh []string
	for _, k := range known {
		if k.prop == prop && k.hit > 0 {
			kh = append(kh, fmt.Sprintf("%s x%d", k.class, k.hit))
		}
	}
	cov := map[string]any{
		"evaluations":         evals,
		"distinct_nontrivial": distinct,
		"rule":                meta.Rule,
		"samples":             samples,
		"planned_runs":        planned,
		"runs_reaching":       reach,
		"runs_per_hour":       int(float64(evals) / wall * 3600),
		"sim_time_s":          float64(simMS) / 1000,
		"fault_counts":        faults,
		"probes":              probes,
		"components":          meta.Components,
		"known_findings_hit":  kh,
		"other_oracles":       foreign,
		"generator":           genInfo,
	}
	if selftestInfo != nil {
		cov["determinism_selftest"] = selftestInfo
	}
	if retriedHangs > 0 {
		cov["runs_repeated_after_real_time_watchdog"] = retriedHangs
	}
	ev := map[string]any{
		"property_id": prop,
		"tier":        tier,
		"seed":        base,
		"level":       meta.Level,
		"coverage":    cov,
		"assumptions": meta.Assumptions,
		"wall_s":      wall,
		"violations":  nviol,
	}
	b, _ := json.MarshalIndent(ev, "", " ")
	os.MkdirAll(filepath.Join(verifDir, "evidence"), 0o755)
	if err := os.WriteFile(filepath.Join(verifDir, "evidence", prop+".json"), b, 0o644); err != nil {
		die2("write evidence: %v", err)
	}
}

// doSelftest runs each seed in several processes and GOMAXPROCS settings and compares
// journal hashes (DESIGN.md §3).
func doSelftest(prop, scen string, base uint64, runs, nw int) int {
	worker, info := build(false)
	fmt.Printf("vcheck selftest: %s\n", info)
	if runs <= 0 {
		runs = 40
	}
	var items []planItem
	if scen != "" {
		items = []planItem{{Scenario: scen}}
	} else if prop != "" {
		items = plans[prop]
	} else {
		seen := map[string]bool{}
		var ps []string
		for p := range plans {
			ps = append(ps, p)
		}
		sort.Strings(ps)
		for _, p := range ps {
			for _, it := range plans[p] {
				k := it.Scenario + fmt.Sprint(it.Args)
				if !seen[k] && !it.Race {
					seen[k] = true
					items = append(items, it)
				}
			}
		}
	}
	pairs, bad := selftestItems(worker, items, prop, base, runs, nw, false)
	fmt.Printf("selftest: %d (scenario,seed) pairs compared across 5 process/GOMAXPROCS modes, mismatches=%d\n", pairs, bad)
	cleanup()
	if bad > 0 {
		return 2
	}
	return 0
}

func runWorkerEnv(worker string, job *Job, extra string) ([]*Result, *Result, string, error) {
	jf, _ := os.CreateTemp(scratch, "job-*.json")
	of := jf.Name() + ".out"
	job.Out = of
	jb, _ := json.Marshal(job)
	jf.Write(jb)
	jf.Close()
	defer os.Remove(jf.Name())
	defer os.Remove(of)
	cmd := exec.Command(worker, "-test.run", "^TestWorker$", "-test.timeout", "0")
	os.MkdirAll(filepath.Join(scratch, "tmp"), 0o755)
	cmd.Env = append(os.Environ(), "VCHECK_JOB="+jf.Name(), "GODEBUG=randautoseed=0", "GOGC=off", "TMPDIR="+filepath.Join(scratch, "tmp"), extra)
	var stderr bytes.Buffer
	cmd.Stdout, cmd.Stderr = &stderr, &stderr
	err := cmd.Run()
	var results []*Result
	var started uint64
	haveStart, done := false, false
	if f, e := os.Open(of); e == nil {
		sc := bufio.NewScanner(f)
		sc.Buffer(make([]byte, 1<<20), 1<<28)
		for sc.Scan() {
			ln := sc.Text()
			switch {
			case strings.HasPrefix(ln, "START "):
				started, _ = strconv.ParseUint(ln[6:], 10, 64)
				haveStart = true
			case strings.HasPrefix(ln, "RESULT "):
				var r Result
				if json.Unmarshal([]byte(ln[7:]), &r) == nil {
					results = append(results, &r)
					haveStart = false
				}
			case ln == "DONE":
				done = true
			}
		}
		f.Close()
	}
	if !done {
		if haveStart {
			return results, &Result{Seed: started, Crash: crashSignature(stderr.String())}, stderr.String(), nil
		}
		return results, nil, stderr.String(), fmt.Errorf("worker failed: %v", err)
	}
	return results, nil, stderr.String(), nil
}

// selftestItems runs every seed of every item in five process modes and compares journal
// hash + verdict.  It returns the number of (scenario, seed) pairs and of mismatches.
func selftestItems(worker string, items []planItem, prop string, base uint64, runs, nw int, quiet bool) (int, int) {
	bad := 0
	type key struct {
		scen string
		seed uint64
	}
	var mu sync.Mutex
	ref := map[key]string{}
	var wg sync.WaitGroup
	sem := make(chan struct{}, nw)
	for _, it := range items {
		var seeds []uint64
		for j := 0; j < runs; j++ {
			seeds = append(seeds, base*7919+uint64(j))
		}
		for _, mode := range []string{"batch:1", "batch:4", "batch:16", "single:16", "single:1"} {
			it, mode := it, mode
			parts := strings.Split(mode, ":")
			var jobs [][]uint64
			if parts[0] == "batch" {
				jobs = [][]uint64{seeds}
			} else {
				for _, s := range seeds {
					jobs = append(jobs, []uint64{s})
				}
			}
			for _, js := range jobs {
				js := js
				wg.Add(1)
				sem <- struct{}{}
				go func() {
					defer wg.Done()
					defer func() { <-sem }()
					job := &Job{Prop: prop, Scenario: it.Scenario, Tier: "quick", Seeds: js, Args: it.Args}
					res, crash, st, err := runWorkerEnv(worker, job, "GOMAXPROCS="+parts[1])
					mu.Lock()
					defer mu.Unlock()
					if err != nil || crash != nil {
						if !quiet {
							fmt.Printf("selftest: %s mode=%s: worker trouble: %v %v\n%s\n", it.Scenario, mode, err, crash, tailStr(st, 1500))
						}
						bad++
						return
					}
					for _, r := range res {
						k := key{it.Scenario + fmt.Sprint(it.Args), r.Seed}
						v := r.Journal
						if r.Violation != nil {
							v += "!" + r.Violation.Oracle + "/" + r.Violation.Sig
						}
						if r.Infra != "" {
							v += "?infra"
						}
						if prev, ok := ref[k]; ok && prev != v {
							fmt.Printf("selftest: NONDETERMINISM %s seed=%d mode=%s: %s vs %s\n", it.Scenario, r.Seed, mode, prev, v)
							bad++
						} else {
							ref[k] = v
						}
					}
				}()
			}
		}
	}
	wg.Wait()
	return len(ref), bad
}
