package main

func init() {
	propMeta["C14"] = meta{
		Level: "exploration",
		Rule:  "one run = an auth node (real NTLM verifier, user database and go-ntlm behind a real gRPC server, reached through a real gRPC client over a simulated unix socket) with 1-3 configured users (one with an empty password) and 1-4 session identifiers; 4-14 operations drawn from: negotiate, authenticate with the right password (domain empty or not), wrong password, unknown user, a response computed for another session's challenge, replay of any earlier authenticate message, garbage (not base64, random bytes, truncated type 1/3), empty message, user with empty configured password, clock jump 0-90 s, auth-node restart; oracle (independent MD4/HMAC-MD5 NTLMv2 code): Authenticated => the message is a type 3 whose NT response verifies for the configured non-empty password of the named user against the challenge most recently issued on that very session (challenge parsed from the server's own type 2) and the returned name is that user; no user name without authentication; challenges never repeat; a client that answers the challenge it was just given with the right password within 55 s is authenticated; non-trivial = >=4 operations; distinct = distinct operation/outcome sequence",
		Components: map[string]any{
			"real": []string{"cmd/auth/ntlm (verifier, context cache), cmd/auth/database, cmd/auth/config, shared/auth gRPC stubs, grpc-go client and server, go-ntlm, go-cache"},
			"stub": []string{"cmd/auth/auth.go main() and its 12-line NTLM wrapper (cgo PAM header missing: cannot be compiled here) replaced by an equivalent plain grpc.NewServer() registration", "unix socket (simnet transparent link)", "clock"},
		},
		Assumptions: append([]string{"exchanges that straddle the one-minute context lifetime are don't-care for completeness", "RPCs are issued one at a time (the verifier's per-session context has no locking; concurrent use of one session is C09 territory)"}, commonAssumptions...),
	}
}
