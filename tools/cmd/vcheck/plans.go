package main

// plans maps a property to the scenarios its check runs (DESIGN.md §6).
var plans = map[string][]planItem{
	"C01": {{Scenario: "c01", Quick: 4000, Thorough: 400000}},
	"C09": {{Scenario: "c01", Quick: 1500, Thorough: 100000}},
}

type meta struct {
	Level       string
	Rule        string
	Components  map[string]any
	Assumptions []string
}

var realComponents = []string{
	"cmd/rdpgw main() (route table, config loading, callback wiring), protocol, transport, security, web, identity, config, kdcproxy packages",
	"net/http server, gorilla mux/websocket/sessions/securecookie, go-jose, go-oidc, oauth2, go-cache, crypto/tls",
}

var stubComponents = []string{
	"TCP (simnet: in-memory duplex byte pipes, every blocking op parked in the scheduler)",
	"clock (testing/synctest bubble)",
	"RDP hosts (scripted producers/consumers)", "OpenID provider (discovery, JWKS, token, userinfo)", "RDP gateway clients (scheduler-owned, independent MS-TSGU/RFC 6455 codecs)",
}

var commonAssumptions = []string{
	"the harness is compiled with go1.26.8 (testing/synctest); the repository pins go 1.22",
	"seams (dial, listen, serve, exit, math/rand seeding) are redirected by a go/ast rewrite of a scratch copy of /repo's working tree; no other source line is changed",
	"sampling, not proof: a clean batch is evidence over the seeds explored",
}

func comp(extraReal, extraStub []string) map[string]any {
	return map[string]any{"real": append(append([]string{}, realComponents...), extraReal...), "stub": append(append([]string{}, stubComponents...), extraStub...)}
}

var propMeta = map[string]meta{
	"C09": {Level: "exploration", Rule: "tbd", Components: comp(nil, nil), Assumptions: commonAssumptions},
	"C01": {
		Level:       "exploration",
		Rule:        "one run = 1-3 tunnels (websocket or legacy), each a near-valid MS-TSGU packet history (ideal exchange with <=2 of: skip, repeat, swap, inserted packet of any type, rejected cookie, denied/unreachable host, truncated body, unknown type; 0-2 packets after the end; optional client drop; dial black-hole) under a tape-chosen interleaving; non-trivial = some tunnel sent >=3 packets; distinct = distinct journal shape (sequence of scheduler action kinds and connection roles)",
		Components:  comp(nil, nil),
		Assumptions: append([]string{"one packet per transport message and segment-preserving delivery (re-segmentation belongs to C08)", "legacy baseline client: OUT then IN, preamble as its own segment, one packet per HTTP chunk", "unknown packet types may be ignored or may end the tunnel; malformed bodies may be refused or read as zero fields (the safety clauses still apply)"}, commonAssumptions...),
	},
}
