package main

// plans maps a property to the scenarios its check runs (DESIGN.md §6).
var plans = map[string][]planItem{
	"C01": {{Scenario: "c01", Quick: 40000, Thorough: 1200000}},
	"C02": {{Scenario: "c02", Quick: 16000, Thorough: 400000}},
	"C03": {{Scenario: "c03", Quick: 40000, Thorough: 1200000}},
	"C04": {{Scenario: "c04", Quick: 30000, Thorough: 1000000}},
	"C05": {{Scenario: "c05", Quick: 17600, Thorough: 600000, PerProc: 50}},
	"C06": {{Scenario: "c06", Quick: 12000, Thorough: 250000}},
	"C07": {{Scenario: "c07", Quick: 16000, Thorough: 300000}},
	"C08": {{Scenario: "c08", Quick: 40000, Thorough: 1200000}},
	"C09": {{Scenario: "c09", Quick: 16000, Thorough: 400000}, {Scenario: "c09", Race: true, Quick: 800, Thorough: 30000}},
	"C10": {{Scenario: "c10", Quick: 24000, Thorough: 700000, PerProc: 50}},
	"C11": {{Scenario: "c11", Quick: 28800, Thorough: 1008000}},
	"C12": {{Scenario: "c12", Quick: 24000, Thorough: 800000}},
	"C13": {{Scenario: "c13", Quick: 22400, Thorough: 1008000}},
	"C14": {{Scenario: "c14", Quick: 20000, Thorough: 800000}},
	"C15": {{Scenario: "c15", Quick: 24000, Thorough: 1000000}},
	"C16": {{Scenario: "c16", Quick: 32000, Thorough: 1000000}},
	"C17": {{Scenario: "c17", Quick: 48000, Thorough: 1500000}},
	"C18": {{Scenario: "c18", Quick: 24000, Thorough: 1000000}},
	"C20": {{Scenario: "c20", Quick: 24000, Thorough: 1000000}},
}

type meta struct {
	Level       string
	Rule        string
	Components  map[string]any
	Assumptions []string
}

var realComponents = []string{
	"cmd/rdpgw main() (route table, config loading, callback wiring), protocol, transport, security, web, identity, config, kdcproxy packages",
	"net/http server, gorilla mux/websocket/sessions/securecookie, go-jose, go-oidc, oauth2, go-cache, crypto/tls",
}

var stubComponents = []string{
	"TCP (simnet: in-memory duplex byte pipes, every blocking op parked in the scheduler)",
	"clock (testing/synctest bubble)",
	"RDP hosts (scripted producers/consumers)", "OpenID provider (discovery, JWKS, token, userinfo)", "RDP gateway clients (scheduler-owned, independent MS-TSGU/RFC 6455 codecs)",
}

var commonAssumptions = []string{
	"the harness is compiled with go1.26.8 (testing/synctest); the repository pins go 1.22",
	"seams (dial, listen, serve, exit, math/rand seeding) are redirected by a go/ast rewrite of a scratch copy of /repo's working tree; no other source line is changed",
	"sampling, not proof: a clean batch is evidence over the seeds explored",
}

func comp(extraReal, extraStub []string) map[string]any {
	return map[string]any{"real": append(append([]string{}, realComponents...), extraReal...), "stub": append(append([]string{}, stubComponents...), extraStub...)}
}

var propMeta = map[string]meta{
	"C09": {
		Level:       "exploration",
		Rule:        "one run = 2-6 concurrent tunnels (websocket and legacy) doing setup, data in both directions (host keeps streaming 2-9 writes), then per tunnel one of: nothing, CLOSE_CHANNEL while the host is still sending, an out-of-phase packet while the host is still sending, abrupt client disconnect (EOF or reset), keep-alives between data packets; 2-5 stalls hold gateway writes mid-message (slow client / slow host) or delay deliveries; interleaving chosen by the tape. Two batches: a plain build and a race-detector build (run counts per tier are in this file's runs fields; one run per process in the race build, simulator shims invisible to the detector: //go:norace + RaceDisable, discarding logger so that the log mutex does not order goroutines). Violations: a race report in which both accesses have a frame of the repository; a fatal error or unrecovered panic (process death, e.g. concurrent map writes, gorilla's concurrent-write panic); a torn or interleaved websocket frame / packet seen by a client-side deframer, a malformed or foreign DATA payload; non-trivial = >=2 tunnels received host data; distinct = journal shape",
		Components:  comp(nil, nil),
		Assumptions: append([]string{"the race detector only reports races that occur in the explored executions; the simulator widens the windows (a write held for many scheduler steps) but does not enumerate them", "sync.RWMutex of the repository is simulated with reader/writer semantics and the same race-detector annotations as the original"}, commonAssumptions...),
	},
	"C06": {
		Level:       "exploration",
		Rule:        "one run = one open tunnel (websocket or legacy) relaying a client stream (1-12 DATA packets, thorough tier up to 60; payload sizes biased to 0, 1, 4085-4087, 4095-4097, 8182-8193, 16383/16384, 32768, 65534/65535 and uniform; 1 in 6 packets declares fewer or more bytes than it carries) and a host stream (1-12 writes up to 20000 bytes; 1 run in 3 adds bursts of 65535/65536/65537/100000/131072/200000 bytes; in half of the runs the network may coalesce host writes before the gateway reads them) under a tape-chosen interleaving of both directions, 0-3 stalls (gateway write held = slow client/slow host, delivery to the gateway held, peer reading slowly) and optional TCP re-segmentation of the client's writes; oracle at the end of a fault-free drain: host bytes == concatenation of declared payloads (min(declared,carried)); client DATA payloads == host stream; every DATA packet structurally well-formed (header length == bytes sent, payload-length field == payload carried); a packet declaring more than it carries may be forwarded as carried, dropped, or end the tunnel; non-trivial = bytes flowed both ways and >=1 stall fired; distinct = journal shape",
		Components:  comp(nil, nil),
		Assumptions: append([]string{"streams up to ~0.8 MiB per direction in the thorough tier (60 packets x 65535), not several MiB"}, commonAssumptions...),
	},
	"C07": {
		Level:       "exploration",
		Rule:        "one run = 2-8 (thorough: 2-64) simultaneous tunnels with distinct connection ids (braced GUIDs, plain GUIDs, short and long opaque tokens, ids that differ only in case), mixed transports, distinct users/tokens/hosts, self-identifying byte streams, 1 in 5 with a C01-style misbehaving history, optional close/drop, 0-2 stalls, setup/traffic/teardown interleaved by the tape; oracle: per tunnel the C01 reference machine, dial attribution by per-tunnel host names (at most one, the requested one), host bytes prefix of that tunnel's declared payloads, client DATA prefix of that tunnel's host stream (any foreign byte is a mismatch); a transport that cannot be established while others are active is a violation; non-trivial = >=2 tunnels moved bytes; distinct = journal shape",
		Components:  comp(nil, nil),
		Assumptions: append([]string{"connection identifiers are distinct, as the property states"}, commonAssumptions...),
	},
	"C08": {
		Level:       "fault_enumeration",
		Rule:        "one run = one packet history (valid setup + 1-6 DATA up to 3000 or 20000 bytes, 1 in 4 C01-mutated, optional close) whose byte stream is re-segmented: one packet per message (control), one chosen packet cut at one or two tape-swept positions, 2-4 packets coalesced into one message, cuts independent of packet boundaries, or everything in one message; websocket messages optionally split into 2-4 frames; optional TCP re-segmentation underneath (stream-mode delivery); 1 in 6 runs make the stream unframeable (length field 0-7, or a packet cut short followed by client EOF); oracle: the reference machine consumes packets, so responses, dials and relayed bytes must equal those of the unsegmented stream, streams complete after drain, an unframeable stream ends the tunnel and nothing after it is processed; non-trivial = >=4 packets sent and some message carries >=2 packets, some packet spans >=2 messages, or TCP re-segmentation on; distinct = journal shape",
		Components:  comp(nil, nil),
		Assumptions: append([]string{"cut positions of one packet are enumerated across seeds, the rest of the schedule is sampled", "legacy: the preamble the IN handler discards is delivered as its own segment before re-segmentation starts"}, commonAssumptions...),
	},
	"C11": {
		Level:       "fault_enumeration",
		Rule:        "end cause (CLOSE_CHANNEL, out-of-order packet, unframeable bytes, client EOF, client RST, legacy IN EOF/RST, legacy OUT EOF/RST) x end point (before handshake, after each of the four steps, data in flight to host, to client, both) x transport are enumerated by seed (144 cells, each cell visited >=10 times per quick run); within a cell the schedule, data sizes, the out-of-order request type, an optional write stall at the moment of the end, and a client that stops reading for good once host data flows (kept through the drain when the client stays connected and only relay writes are held) are sampled; oracle after a drain (faults off, host idle and not closing first, <=60 s simulated): every backend connection saw EOF/RST from the gateway, every client-facing connection was closed by the gateway, the number of goroutines with a frame in the protocol package is back to its value before the tunnel, the connection registry is empty, rdpgw_websocket_connections and rdpgw_legacy_connections (read through /metrics of the real binary) are back to their values; non-trivial = every run; distinct = journal shape",
		Components:  comp(nil, nil),
		Assumptions: append([]string{"rdpgw_connection_cache is a request-time sample of a TTL cache and is not asserted"}, commonAssumptions...),
	},
	"C03": {
		Level:       "exploration",
		Rule:        "one run = one tunnel, in half of the runs preceded by a complete tunnel of another user on the same gateway instance (history: state such as caches must not carry an authorisation over), under a drawn host policy (mode in roundrobin/unsigned/any/signed, host list with/without the user placeholder and an IPv6 entry, user name incl. empty and user@domain, token host = configured entry or the requested string) requesting a configured entry or one of 19 near-miss kinds (port, prefix, suffix, superstring, embedded/doubled NUL, no terminator, other user's entry, bracketed, surrogate pair, odd-length UTF-16, over-long length field, name containing a port); oracle: independent UTF-16 decode + policy model; every dial of the run must be the authorised request verbatim, a refusal must carry E_PROXY_RAP_ACCESSDENIED and cause zero dials; listeners exist for allowed and forbidden names; non-trivial = the channel request was sent; distinct = journal shape",
		Components:  comp(nil, nil),
		Assumptions: append([]string{"for names containing surrogate code units only the authorised-set clause is asserted (the gateway decodes unit by unit)"}, commonAssumptions...),
	},
	"C04": {
		Level:       "exploration",
		Rule:        "one run = a cookie issued to address A - half of the runs through the real login + download flow of the gateway with the browser at A (as TCP peer or as first X-Forwarded-For element of a chain), half harness-minted under the configured key with clientIp = A - presented from address B (equal, different, or textually near: appended digit, dropped character, one character changed, prefixed; IPv4/IPv6; the login that created the browser session may have come from a third address; as TCP peer or as first element of an X-Forwarded-For chain of length 1-5 with varied separators; legacy OUT channel optionally from a third address) under verifyclientip absent/true/false, both transports; oracle: channel created iff verification off or A==B textually, refusal carries an access-denied status and zero dials; non-trivial = channel request sent; distinct = journal shape",
		Components:  comp(nil, nil),
		Assumptions: append([]string{"same IP written differently is a don't-care region and is not generated"}, commonAssumptions...),
	},
	"C16": {
		Level:       "exploration",
		Rule:        "one run = 1-2 tunnels (1 run in 5 NTLM-authenticated with token auth off) with C01-style near-valid histories under a drawn policy (all 2^7 redirect switch combinations, idle timeout over the int32 range with boundary bias, smart-card on/off); every packet the gateway sends is decoded by an independent structural MS-TSGU decoder (type answers request, header length == bytes sent, optional fields exactly per fieldsPresent, no trailing bytes), status 0 iff the reference model accepted the step, capability/cookie/host refusals carry their MS-TSGU codes, tunnel-auth response redirection word and idle timeout equal what the configuration means; non-trivial = >=2 server packets decoded; distinct = journal shape",
		Components:  comp(nil, nil),
		Assumptions: append([]string{"the close-channel response is accepted in either the MS-TSGU HTTP_CLOSE_PACKET layout or the channel-response layout the gateway uses, as long as it is consistent with its own fieldsPresent mask", "configuration and input dimensions are sampled"}, commonAssumptions...),
	},
	"C17": {
		Level:       "exploration",
		Rule:        "one run = one handshake (client capability word: boundary values, uniform uint16 or single bits; random version bytes) followed by tunnel-create and tunnel-auth; all four server settings of {cookie auth, smart card}: cookie auth off is reached through authentication [ntlm] with NTLM-authenticated tunnels; oracle: success iff both capability sets empty or intersecting, response advertises exactly the server set and echoes the version bytes, mismatch answered by E_PROXY_CAPABILITYMISMATCH, the stream ends and the following packets get nothing; non-trivial = every run; distinct = journal shape",
		Components:  comp(nil, nil),
		Assumptions: append([]string{"input dimension is sampled (uniform draws cover the 65536 values in the thorough tier)"}, commonAssumptions...),
	},
	"C01": {
		Level:       "exploration",
		Rule:        "one run = 1-3 tunnels (websocket or legacy), each a near-valid MS-TSGU packet history (ideal exchange with <=2 of: skip, repeat, swap, inserted packet of any type, rejected cookie, denied/unreachable host, truncated body, unknown type; 0-2 packets after the end; optional client drop; dial black-hole) under a tape-chosen interleaving; 1 run in 5 uses authentication [ntlm] with token auth off (every tunnel connection first performs the NTLM exchange through the auth node, tunnel-create carries no cookie); non-trivial = some tunnel sent >=3 packets; distinct = distinct journal shape (sequence of scheduler action kinds and connection roles)",
		Components:  comp(nil, nil),
		Assumptions: append([]string{"one packet per transport message and segment-preserving delivery (re-segmentation belongs to C08)", "legacy baseline client: OUT then IN, preamble as its own segment, one packet per HTTP chunk", "unknown packet types may be ignored or may end the tunnel; malformed bodies may be refused or read as zero fields (the safety clauses still apply)"}, commonAssumptions...),
	},
}
