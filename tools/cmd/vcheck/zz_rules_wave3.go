package main

// Additions to the scenarios made while the third wave of seeded changes was processed
// (seeded/README.md, "Wave 3").  Kept apart so that the original texts stay as they were.

var commonWave3 = " In a third of the runs every lock, unlock and sync.Pool operation of the repository's own code is a scheduling point as well (the goroutine parks in the scheduler, which decides by the tape what runs next; sync.Pool is a deterministic LIFO pool inside the simulation); package-level variables of the repository's packages are put back to their initial values before every run."

var addedRules = map[string]string{
	"C01": " Legacy tunnels: in 1 run of 4 a second RDG_IN_DATA request with the tunnel's connection id is made (before the first body byte of the first IN channel, or on the established tunnel) and, if let in, sends a handshake with a version no other client uses: an answer to it is a violation (two packet streams on one tunnel). With smart-card and cookie authentication both enabled the handshake offers both mechanisms or either one.",
	"C02": " A trial may sit 20-440 s on the open connection between handshake and tunnel create (acceptance is judged at the moment of presentation); a third of the runs enable smart-card authentication as well, and the handshake then offers both mechanisms or one of them.",
	"C03": " Further dimensions: the VerifyClientIp switch (default/on/off); the earlier tunnel may be the same user's (same access token) to another allowed host; in half of the placeholder runs another user opens a channel to their own entry while the observed tunnel is being set up.",
	"C04": " Legacy: in 1 run of 3 the presenting client retries its RDG_IN_DATA request (same connection id) while the tunnel is being authorised. 1 run in 5 uses client identifiers that are not address literals (zone-scoped link-local IPv6, address:port, 'unknown', '_hidden', host names), which only X-Forwarded-For can carry: different strings are different clients.",
	"C05": " Additional request kinds: two Basic requests overlapping at an authentication service that takes one second to answer (right and wrong password of one user in either order, two users, two wrong passwords), each judged by its own credentials; user names decorated with a domain (alice\\bob, bob@alice) with another user's password.",
	"C06": " In a third of the runs a second tunnel carries traffic of its own alongside the observed one.",
	"C07": " In a third of the runs two of the tunnels belong to one user signed in once (one access token, one machine) and target different hosts.",
	"C08": " Legacy: in a third of the runs the client ends the request body properly after its last byte (terminating chunk in the same write as the last piece of the packet stream, or in a write of its own), also after a packet it never completes. In 1 run of 5 an earlier connection (either transport) with the same connection id broke off inside a packet before the observed connection starts; the new connection's stream must be read from its own first byte (violations: misframing, or a transport that is never accepted).",
	"C09": " Further endings: a websocket TEXT message while the host is still sending. 1 run in 40 (1 in 12 of the race batch) is a long session in which the host makes 1050-1250 small writes on one tunnel.",
	"C10": " Packet streams also include well-formed packets in unexpected continuations while the host of an open channel keeps sending: client drop (EOF/reset) at any packet, data / keep-alive / channel create / close / tunnel auth after a channel close, a second channel create on an open channel.",
	"C11": " Legacy: in 1 run of 4 the client retries its RDG_IN_DATA request while the tunnel is alive.",
	"C12": " In 1 replay of 4 a first presentation of the issued file falls into an outage of the identity provider's userinfo endpoint (5xx, refused, garbage) and is refused; 1-20 s after the provider is back the same file must be accepted.",
	"C13": " Failure kind 'claim-not-a-name' (every candidate claim present but null, [], {} or false). In half of the runs another user is signed in and active throughout; after a good login a visitor who never signed in browses between requests of the signed-in users and must stay unauthenticated. A failing callback may come at any age of the state inside the two minutes, and in half of the IdP-side failure runs a retry with a code the provider accepts is made once the state is older than two minutes: it must not authenticate.",
	"C14": " Without a challenge on the session a client may also prove the password against an empty or an all-zero server challenge.",
	"C15": " In a third of the runs a different account whose name differs only in case (or extends the name) obtained a token up to 90 s earlier; the token minted for the observed user must still yield that user.",
	"C16": " A DATA packet that reaches the client before the channel response is a violation (the packet answering the channel create is then not a channel response).",
	"C17": " In a third of the runs a second tunnel shakes hands at the same time with its own capability value and version bytes.",
	"C18": " The mechanism list is given in a drawn order; 1 in 5 of the TLS-off draws spells the keyword differently (Disable, DISABLE, disabled, off: then TLS is not disabled and certificates are given) with the invariant that local authentication is never served over plain HTTP; fault: in 1 of 5 startable runs with a key to substitute the secure random source fails while the instance starts: it must exit or run without issuing anything under a substituted key.",
	"C20": " History in 1 run of 4: a request made while every KDC of the realm refuses connections (must get a non-200 response within the bound), then the KDCs are back 0-25 s later. Payload sizes include 65503, 65504, 70000, 100000 and 130000 bytes: writes above 65507 bytes fail on the simulated UDP sockets with EMSGSIZE, so only TCP endpoints count as answering for them.",
}

func init() {
	for id, m := range propMeta {
		if a, ok := addedRules[id]; ok {
			m.Rule += a
		}
		switch id {
		case "C12", "C13", "C14", "C15", "C18", "C20":
			// no lock or pool of the repository on these paths worth mentioning
		default:
			m.Rule += commonWave3
		}
		propMeta[id] = m
	}
}

// Wave 4 additions (seeded/README.md, "Wave 4").
var addedRulesW4 = map[string]string{
	"C01": " Channel creates for an unreachable resource may list alternate resource names (hosts that do answer); only the resource itself may be dialed.",
	"C02": " IdP conditions also include a userinfo endpoint that answers after 1-20 s (valid or revoked; its answer is what counts); a third of the trials carry the signed-in browser's session cookie on the tunnel request (such connections are journaled without content).",
	"C03": " User names also include *, user?, [a-z]*, user0|user1 and .* ; in a quarter of the authorised requests the authorised host itself is down (nothing else may be dialed).",
	"C04": " The empty string (an empty first X-Forwarded-For element) is one of the non-literal client identifiers.",
	"C05": " The mechanisms are listed in a drawn order and local may be spelled basic; the authenticate message on another connection may quote the first connection's id; 1 of 12 of those trials parks 1100 unfinished NTLM exchanges of other clients between the two messages of one client, which must still reach the handler.",
	"C06": " A third of the runs use socket buffers that take only part of a write; a stall may last 3-20 s of simulated time; the host may close after its last write (everything it wrote must still reach the client) or reset in the middle of its script (prefixes only).",
	"C07": " At most one special situation per run: two tunnels target one machine on different ports, the first of which is down; a legacy tunnel sends its second request only after another legacy tunnel has ended; one client never reads again once host data arrives (nothing is demanded for it, everything for the others). A transport that is never accepted is a violation.",
	"C08": " 1 run in 10 uses payloads up to 65535 bytes (coalesced messages above 128 KiB); 1 in 5 has quiet periods of 31-75 s before one or two transport messages; on websocket 1 in 8 sends a well-formed packet inside a TEXT message, which must end the stream without effect.",
	"C09": " Hosts may close after their script or reset; 1 run in 8 lets two websocket tunnels report the same connection id.",
	"C10": " Hosts may close or reset while the client goes on.",
	"C11": " For the data points the host may hang up or reset before the client side ends; a third of the packet-caused ends have 1-3 more packets in flight behind the one that ends the tunnel.",
	"C12": " 1 run in 8 uses IdP access tokens of 2.5-8.5 KB (a login that fails for that reason issues nothing; a file that is issued must carry the token); client addresses include IPv6 with decimal last groups.",
	"C13": " Expired ID tokens expired 2 s, 20 s, 59 s, 3 min or 10 min ago.",
	"C14": " A correct proof inside an authenticate message with unusual flag sets (key exchange without key-length flag, with or without a session-key field) is followed on the same session by a message that names another user and reuses the first user's key.",
	"C16": " Hosts may hang up or reset before the client closes; an accepted channel close must be answered with status 0 if it is answered.",
	"C18": " 1 in 8 of the multi-mechanism draws writes the mechanisms as one comma separated item (one unknown name: nothing enabled); every started instance is probed without credentials and the refusal rules are applied to the mechanisms it actually challenges for.",
	"C20": " TCP endpoints may be black-holed (connection attempts get no answer; bound = 15 s + 5 s per such endpoint); a quarter of the well-formed requests come from a client that half-closes after the request.",
}

func init() {
	for id, a := range addedRulesW4 {
		m := propMeta[id]
		m.Rule += a
		propMeta[id] = m
	}
}

func init() {
	m := propMeta["C17"]
	m.Rule += " Half of the runs take the server setting and the first tunnel's capability value from the seed (cell = seed mod 262144: bits 0-15 the value, bits 16-17 the setting), so that 262144 consecutive seeds visit every cell of {4 settings} x {65536 values} once; the thorough tier's 1.5 million seeds cover the product several times, the quick tier a deterministic slice of it."
	propMeta["C17"] = m
}

// Wave 5 additions (seeded/README.md, "Wave 5").
var addedRulesW5 = map[string]string{
	"C01": " 1 run in 10 uses one connection id for three connections in a row: a legacy RDG_OUT_DATA request that is never completed, a websocket connection that reaches tunnel authorisation and leaves, a websocket connection whose first packet is a channel create (must be refused).",
	"C02": " A third of the runs use a provider whose access tokens are signed JWTs (only the provider can say whether one is still honoured).",
	"C04": " The login may have come through the same proxy (same peer address) for another forwarded client.",
	"C05": " Overlapping Basic requests include pairs whose user+password read the same when written one after the other; legacy pairs send RDG_OUT_DATA with correct credentials and RDG_IN_DATA (same connection id) with a wrong password, another user's, or none.",
	"C06": " 1 run in 5 (without a host-side ending) keeps the host's receive window closed for 2-10 s while the client sends everything and then closes the channel; on websocket 1 run in 6 sends the whole client stream in one message; a valid step that is never answered or is refused counts as 'stream not carried'.",
	"C07": " Further special situations: two NTLM-authenticated legacy tunnels whose (user, connection id) pairs collide when concatenated; a legacy client that sends RDG_IN_DATA before RDG_OUT_DATA (refused; its own fate is ignored).",
	"C08": " One segmentation kind cuts a single packet into 33-120 pieces.",
	"C12": " Query tokens of the 'expired' kind expired 90 s to 10 min ago; client addresses include non-canonical spellings (IPv4-mapped, upper-case hex, fully written zero groups, leading zeros), forwarded in X-Forwarded-For.",
	"C13": " Failure kind 'claim-name-in-other-case' (UPN, Preferred_Username, ...: other claims, no user name).",
	"C14": " Faults: the user database takes 2.5-4 s over one look-up (followed by an insider message on the same session); bursts of 5-8 failed attempts for one user from sessions of their own, after which the user negotiates and answers correctly and must be authenticated.",
	"C15": " User names include BEL, VT, ESC, DEL and non-printable astral characters.",
	"C16": " Refused tunnel-authorisation responses are checked against the configured flags and timeout as well; 1 run in 5 adds the history 'a host that accepted a channel goes down, the next channel create for it is not accepted' (within seconds of simulated time).",
	"C17": " A quarter of the tunnels pipeline: the handshake travels in one transport message with the packets that follow it.",
	"C18": " Half of the key-substitution runs enable the optional user token with a drawn user-token key and PAA encryption key; the issued file must carry a five-segment user token.",
	"C20": " KDC behaviour 'drip' (reply in 6-10 pieces, 1-4 s apart: longer than the proxy waits); UDP replies of 4096, 4097, 9000 and 30000 bytes.",
}

func init() {
	for id, a := range addedRulesW5 {
		m := propMeta[id]
		m.Rule += a
		propMeta[id] = m
	}
}

// wave 6 (completeness direction: legitimate things that must not be refused, lost or cut short)
var addedRulesW6 = map[string]string{
	"C01": " Tunnel worlds draw host names with capitals in a quarter of the runs; a quarter of the channel creates for the allowed host list 1-3 alternate resource names.",
	"C02": " The provider's opaque tokens come in three spellings (plain, base64 with '=' padding, other VSCHARs); 1 run in 8 uses the file session store and access tokens of 3-3.6 kB; SplitUserDomain is drawn, the signed-in user may carry a domain part (also in mixed case) and the userinfo answer carries the name claims in half of the runs.",
	"C03": " A quarter of the exact requests list 1-3 alternate resource names (only the first name is the one asked for).",
	"C04": " Forwarded identifiers include non-canonical IPv6 spellings (one address in two spellings is not judged); 1 run in 6 has a chain of 8-32 X-Forwarded-For entries, at issuance, at use, or both.",
	"C05": " In the NTLM flood a newcomer with correct credentials runs its whole exchange while the 1100 unfinished ones are parked.",
	"C07": " 1 run in 5 (no other special situation) loses a legacy client's first RDG_OUT_DATA connection right after it was accepted; the client retries under the same connection id.  1 run in 50 opens 34-47 legacy tunnels at once (also in the quick tier).",
	"C11": " 1 legacy run in 5 lets 2-51 s pass between the acceptance of RDG_IN_DATA and the client's first byte.  Step 6 (1 legacy run in 3 without leaks): the same client returns under the same connection id and must get a tunnel of its own.",
	"C12": " The second host entry has capitals in half of the runs; 1 replay in 4 meets a userinfo endpoint that answers after 1-8 s.",
	"C13": " User-name claims include DOMAIN\\user forms.  Successful logins run with the provider's clock 0 s - 4 min ahead of the gateway's; 1 in 25 has 515-714 other cookie-less visitors between redirect and callback.",
	"C14": " The client's clock is skewed in 5 of 8 runs (+1 s, +10 min, +26 h, -10 min, -3 d); workstation, domain and one account name may be long (a 190-character principal).",
	"C15": " User names include e, ey, eyJ, J, names in decomposed Unicode spelling, and names of 170 and 300 characters (tokens longer than 511 characters); a download that fails for a signed-in user is the violation 'no-user-token'.",
	"C17": " With one tunnel, 1 run in 4 keeps the client quiet for 31-180 s between transport set-up and handshake.",
	"C18": " A third of the file+environment runs list 30-59 hosts in the environment only.",
	"C20": " The realm is spelled CORP.TEST, Corp.Test or corp.test (the other realm may then be CORP.TEST); dclocator-hint absent, 0, 1 or 0x40000000; the default realm may be given as an explicitly empty target-domain; 1 outage in 8 sees 30-49 requests fail.",
}

func init() {
	for id, a := range addedRulesW6 {
		m := propMeta[id]
		m.Rule += a
		propMeta[id] = m
	}
}

// wave 7 (faults: connection-level events, time and restarts, failing dependencies)
var addedRulesW7 = map[string]string{
	"C01": " The remote desktop host may hang up on its own (right after accepting, after its banner, or with a reset).",
	"C05": " One request kind: a client that closes or half-closes right after its request while the authentication service takes 1-3 s to answer (nobody was confirmed).",
	"C06": " 1 run in 8 has the client silent on its open channel for 6-16 minutes (longer than every cache lifetime inside the gateway) before it carries on; the silence starts only when the gateway has answered what was sent and every other tunnel is set up.",
	"C07": " 1 run in 8 has one legacy session silent for 6-16 minutes, after which somebody else knocks (an RDG_OUT_DATA request that goes no further); 1 run in 8 starts after somebody else presented a cookie with a revoked access token 3-6 times.",
	"C08": " When the gateway ends the tunnel at a header whose length field is too small (the client staying connected), the payloads of the complete data packets in front of that header must have reached the host.",
	"C09": " A quarter of the runs configure an idle timeout of 1-3 minutes; half of their sessions pause for 2-9 s in mid-session.",
	"C10": " The realm's KDC answers properly or with something that is not a framed reply (length prefix with the top bit set, 0xffffffff, text); well-formed KDC-proxy requests are among the bodies; NTLM authenticate messages also come in the three shorter layouts (72-, 64- and 52-byte fixed part) for existing and unknown users; one input kind is a burst of 9-16 logins while the authentication service needs longer than the gateway waits.",
	"C11": " 1 legacy run in 6 outlives every cache lifetime (6-16 minutes pass) before the tunnel ends.",
	"C12": " Browsers may use a new source port for every request; a quarter of the providers leave out expires_in; a third of the second downloads happen in the same session from another address; 1 file in 6 is downloaded again from a cut point with Range and If-Range (an assembled file must be one file whose token verifies).",
	"C13": " Browsers may use a new source port for every request; a quarter of the providers leave out expires_in; failure kind 'callback URL of somebody else's completed login replayed' (the provider refuses the code, or is down).",
	"C14": " Entropy of the helper: healthy, unavailable at start, or one byte per read (then forty clients negotiate and no two may get the same challenge); pairs of sessions share an address; unknown users are also tried with predictable passwords (empty, zeros); 1 run in 250 has 4200 abandoned exchanges that lapse before a login.",
	"C15": " 1 run in 6 also presents a token minted under the same keys by a sibling instance whose clock is 5-90 s ahead (must be accepted).",
	"C16": " Unreachable hosts are unreachable in three ways (refused, black hole, local failure with a drawn errno such as EMFILE or EADDRNOTAVAIL); 1 run in 5 revokes the user's access token after the tunnel was created.",
	"C17": " 1 run in 8 starts after 5-8 refused handshakes from the same client machine.",
	"C18": " A third of the runs use the file session store; under the entropy fault an access cookie forged with the empty or short key must be refused.",
	"C20": " Further KDC behaviours: a well-formed KRB-ERROR as reply (relayed as it is), garbage instead of a framed reply, a KDC that accepts and never reads, a KDC that drops the first connection and is silent afterwards.",
}

func init() {
	for id, a := range addedRulesW7 {
		m := propMeta[id]
		m.Rule += a
		propMeta[id] = m
	}
}

// wave 8 (held out; additions made after the measurement)
var addedRulesW8 = map[string]string{
	"C02": " One forgery kind: under the right key, unexpired, right issuer, but the accessToken claim is missing, empty or null.",
	"C03": " User names include user$1, svc$$ and pc${0}$.",
	"C05": " A third of the correct Basic requests use accounts whose passwords contain colons.",
	"C08": " 1 websocket run in 5 sends an empty binary message in front of every n-th transport message; a third of the short-length headers come without a body, for keep-alive, close and data types.",
	"C10": " Hostile headers include values that are not UTF-8.",
	"C11": " A third of the unframeable endings are a header that announces more than 128 KiB with a few bytes behind it, the client staying connected.",
	"C13": " Wrong-audience tokens may carry azp = this client; ID tokens carry further claims in 4 of 5 runs (groups as names, 60 names, objects; nested roles).",
	"C14": " 1 run in 4 has an account whose password begins and ends with a blank.",
	"C16": " The status of a host-policy denial is judged here as well (shared with C03).",
	"C18": " The query-token issuer is drawn independently of the query-token key.",
	"C20": " Unknown realms come in several spellings; payloads near the limit are adjusted so that the request body has exactly 131072 bytes or 1-100 more.",
}

func init() {
	for id, a := range addedRulesW8 {
		m := propMeta[id]
		m.Rule += a
		propMeta[id] = m
	}
}

// wave 9 (second held-out wave; additions made after the measurement)
var addedRulesW9 = map[string]string{
	"C02": " One forgery kind: the genuine cookie followed by a NUL and more text (x, .AAAA, =, the cookie again, another NUL and x, a blank).",
	"C15": " 1 run in 12 configures a signing key of 1-31 characters (the instance may be unable to mint); a token for another subject encrypted under the right key without an inner signature must be refused.",
	"C04": " A third of the tokens issued by a real download are used after a restart of the gateway with another setting of the verification switch (fault: restart); the switch as it is at use and the address recorded at issuance decide.",
	"C12": " In signed mode two thirds of the good query tokens lapse within 30-60 s; after the first download time passes until the token is 65-180 s beyond its expiry and the same or another signed-in session presents it again: no file.",
	"C17": " 1 tunnel in 5 sends a second handshake request right behind the first (same or other capabilities, another version): it is never answered with success.",
	"C20": " Further KDC behaviour 'reply-pieces': a complete, timely reply that travels in 2-4 TCP segments 1-300 ms apart, the first ending inside the length prefix, right behind it or anywhere in the body; it counts as an answering KDC.",
	"C05": " One request kind (openid and local both enabled): somebody who has just signed in at the web front end presents the browser's session cookie next to Basic credentials (wrong, empty, another user's, or correct password): only the password decides.",
	"C07": " 1 run in 8 (no other special situation) starts after somebody else asked 17-40 times for an allowed machine that is down (every attempt answered with an error); the run's tunnels to healthy hosts must be unaffected.",
}

func init() {
	for id, a := range addedRulesW9 {
		m := propMeta[id]
		m.Rule += a
		propMeta[id] = m
	}
}
