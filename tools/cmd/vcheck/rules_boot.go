package main

func init() {
	propMeta["C18"] = meta{
		Level: "exploration",
		Rule:  "one run = the repository's real main() booted as a simulated node under a drawn configuration: every non-empty subset of {openid, kerberos, local, ntlm}, TLS disabled or certificate files, token auth absent/true/false, 0-2 hosts, selection mode absent/roundrobin/signed/unsigned/any with or without a query-token key, keytab present or absent (a real keytab and krb5.conf are generated), signing/session/session-encryption keys of length absent/0/1/31/32, given by file or by file plus RDPGW_ environment variables that contradict the file (authentication, hosts, tls); outcome = served | exited(code, last log line), captured through the exit seam; oracle: exits non-zero iff one of the six refusal conditions of the property holds; when it serves with OpenID, a login and download are performed: a token must not verify under a configured key that is absent or shorter than 32 characters, a 32-character key must be used, and after a restart of the same configuration (node.restart fault) instance B refuses A's session cookie and A's token when the respective keys were substituted; non-trivial = every run; distinct = distinct configuration tuple",
		Components: comp(nil, nil),
		Assumptions: append([]string{"configuration sampling executed on the simulated boot: the simulator contributes exit capture and the two-instance restart history, nothing schedule-related", "tls: auto without certificates (ACME, binds :80) is excluded", "environment variables are limited to keys whose camel-cased name equals the built-in default's spelling (Server.Tls, Server.Authentication, Server.Hosts): for keys such as Caps.TokenAuth the environment spelling Caps.Tokenauth and the default coexist in the loader and the winner depends on Go map order"}, commonAssumptions...),
	}
}
