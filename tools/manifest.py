#!/usr/bin/env python3
"""Regenerates /verif/MANIFEST.json from the table below (kept next to plans.go)."""
import json, sys

TECH = "deterministic simulation with fault injection"

checks = {
    "C01": ("exploration", "seeded search over packet histories x transports x interleavings of the real gateway (real main(), net/http, gorilla) against a per-tunnel reference state machine, the dial log and host byte streams",
            TECH + " (seeded schedules; reference state machine over recorded history)"),
    "C02": ("exploration", "cookie forgeries x IdP fault conditions x clock jumps, each on a fresh tunnel of the real gateway against an acceptance model that verifies the MAC itself; the genuine cookie comes from the real login and download flow",
            TECH + " (IdP faults, clock jumps, forged inputs; acceptance model oracle)"),
    "C12": ("exploration", "real OpenID login against a stub IdP and the real download handler under drawn policies; independent RDP-file and token decoding; the issued host and token are replayed through a real tunnel",
            TECH + " (seeded configurations and sessions; claims model + replay through the tunnel state machine)"),
    "C13": ("fault_enumeration", "callback failure point x session store x session state enumerated by seed against the real callback handler, IdP faults injected by the stub provider, clock jumps for state expiry, restart with regenerated keys for foreign cookies",
            TECH + " (IdP fault injection at enumerated points, clock jump, node restart; 'authenticated implies verified login' oracle)"),
    "C15": ("exploration", "user tokens minted by the real download flow and forged/mutated/aged/cross-mode variants presented to /tokeninfo of the real binary",
            TECH + " (clock jumps, node restart into the other key mode, forged inputs; status model)"),
    "C03": ("exploration", "seeded search over host policies x near-miss server names on real tunnels; every dial of a run must be the authorised request verbatim, refusals must be reported and cause no dial",
            TECH + " (seeded inputs on simulated tunnels; policy model oracle over the dial log)"),
    "C04": ("exploration", "seeded search over issuing/presenting address pairs (peer, X-Forwarded-For chains, legacy IN/OUT split) x verification switch on real tunnels",
            TECH + " (seeded address pairs on simulated tunnels; address model oracle)"),
    "C05": ("exploration", "every startable mechanism subset is booted (real main(), TLS where required, auth node with the real NTLM verifier over gRPC) and probed with Authorization variants, complete NTLM exchanges on real tunnels and auth-node faults; route model oracle plus the auth node's own confirmation log",
            TECH + " (configurations enumerated by seed; auth-node down/slow faults; route model + confirmation log)"),
    "C06": ("exploration", "seeded search over byte streams, packetisations, stalls and interleavings of both relay directions; stream equality after a fault-free drain",
            TECH + " (stall faults, TCP re-segmentation, stream-equality oracle)"),
    "C07": ("exploration", "2-64 concurrent tunnels with tagged streams under tape-chosen interleavings; per-tunnel reference machine and stream oracles, dial attribution by per-tunnel host names",
            TECH + " (seeded interleavings of N tunnels; per-tunnel models, cross-talk detection)"),
    "C08": ("fault_enumeration", "the byte stream of a packet history is re-segmented (swept cut positions of one packet, coalescing, independent cuts, ws frames, TCP re-segmentation, unframeable streams); effects must equal those of the unsegmented stream",
            TECH + " (segmentation faults enumerated/sampled; model consumes the byte stream)"),
    "C09": ("exploration", "tunnel workloads with write stalls; process deaths (concurrent-write panic, concurrent map fatal error) and torn frames at the client are violations",
            TECH + " (seeded schedules; crash capture and client-side deframer)"),
    "C10": ("exploration", "hostile HTTP, Authorization, NTLM, packet, legacy-ordering, websocket and KDC-proxy inputs under drawn configurations; recovered panics (server log), node exits, process deaths (auth node gRPC handler included) and a liveness probe after every input",
            TECH + " (hostile input sequences, crash capture across nodes, liveness probe after each fault)"),
    "C11": ("fault_enumeration", "end cause x end point x transport enumerated by seed, schedule sampled; after a drain backend and client connections, goroutines, registry and gauges must be released",
            TECH + " (connection faults at enumerated points; resource-release oracle after drain)"),
    "C14": ("exploration", "NTLM message histories over several sessions (negotiate, right/wrong/unknown/empty-password authenticate, cross-session and replayed responses, garbage, clock jumps, auth-node restart) against the real verifier behind real gRPC; independent NTLMv2 computation as oracle",
            TECH + " (seeded histories, clock jumps, node restart; per-session reference model with independent NTLMv2)"),
    "C18": ("exploration", "the real main() is booted as a simulated node under drawn configurations (mechanism subsets, TLS, keys of length 0/1/31/32, file and environment); refusal lattice model; two-instance restart history for substituted keys",
            TECH + " (simulated boot with exit capture, node restart; configuration model) - configuration dimension sampled"),
    "C20": ("fault_enumeration", "KDC proxy requests (payload sizes, realms, malformed bodies) against KDC stubs with drawn fault behaviours per endpoint and protocol; relay faithfulness and bounded-time response",
            TECH + " (KDC faults: refuse, close, partial, silent, keep-open; bounded-liveness and relay oracle)"),
    "C16": ("exploration", "every packet of simulated histories under drawn policies is decoded by an independent structural MS-TSGU decoder and compared with the reference machine's verdict and the configured policy",
            TECH + " (seeded histories and configurations; independent decoder + model)"),
    "C17": ("exploration", "one handshake per run over capability words x server settings x version bytes on real tunnels; negotiation model, tunnel must end on mismatch",
            TECH + " (seeded inputs on simulated tunnels; negotiation model)"),
}

not_applicable = [
    {"property_id": "C19", "reason": "pure function of its input (builder/parser round trip): no schedule, clock, peer or fault can change the result; not a simulation target (DESIGN.md section 7)"},
]

pending = {
}

def main():
    m = {
        "version": 1,
        "setup_cmd": "./mk.sh",
        "hooks": {
            "guard": "none",
            "enable": "no hooks are committed to /repo: every check copies /repo's working tree to a scratch directory and redirects dial/listen/serve/exit/math-rand seeding and the types sync.Mutex/RWMutex/Pool/Map/Once to a generated simhook package with a go/ast rewrite (tools/simgen), and appends per-file reset functions for package-level variables; /repo only receives fix: commits",
            "baseline_off_cmd": "cd /repo && GOFLAGS=-mod=mod GOPROXY=off go test -json -vet=off -count=1 -timeout 25m ./...",
            "source_commits": [],
            "add_only": True,
        },
        "engines": [
            {"name": "vcheck", "path": "tools/cmd/vcheck", "serves_properties": sorted(checks), "kind_free_text": "deterministic simulation driver: seam generator (simgen), worker fan-out, crash classification, tape shrinker, replay, evidence, known-findings"},
            {"name": "simh", "path": "harness", "serves_properties": sorted(checks), "kind_free_text": "simulator (testing/synctest bubble + park/grant network + choice tape + journal), independent reference codecs, stub nodes, scenarios and oracles"},
        ],
        "checks": [],
        "not_applicable": list(not_applicable),
        "notes": "All checks share one engine: ./bin/vcheck -property <id> -tier quick|thorough (VERIF_SEED / VERIF_TIER honoured). Exit 0 held (KNOWN-FINDING lines for entries of known-findings.txt), 1 VIOLATION with replay file, 2 infrastructure.",
    }
    for pid in sorted(checks):
        level, text, tech = checks[pid]
        m["checks"].append({
            "property_id": pid,
            "quick_cmd": f"./bin/vcheck -property {pid} -tier quick",
            "thorough_cmd": f"./bin/vcheck -property {pid} -tier thorough",
            "evidence_file": f"evidence/{pid}.json",
            "replay_cmd_template": "./bin/vcheck -replay {path}",
            "engine": "vcheck",
            "level_claimed": {"category": level, "text": text, "design_ref": f"DESIGN.md section 6 {pid}"},
            "level_note": "sampling over seeds; TCP, clock, RDP hosts, OpenID provider and clients are simulated; the gateway is the repository's real main() and packages compiled with go1.26.8",
            "technique": tech,
        })
    for pid in sorted(pending):
        if pid not in checks:
            m["not_applicable"].append({"property_id": pid, "reason": "not claimed yet: " + pending[pid]})
    json.dump(m, open("/verif/MANIFEST.json", "w"), indent=1)
    print("checks:", len(m["checks"]), "not_applicable:", len(m["not_applicable"]))

main()
