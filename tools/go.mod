module verif/tools

go 1.22
