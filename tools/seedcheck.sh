#!/bin/sh
# usage: seedcheck.sh <PROP> <src-dir> <demo-pkg-dir> [vcheck args...]
#   src-dir holds patch.diff, demo_test.go, README.md from a sub-agent.
# 1. confirms in a scratch worktree: patch applies, builds, baseline tests pass, the demo fails
#    with the patch and passes without it;  2. runs the property's check against that worktree;  3. prints a one-line summary.
set -u
P=$1; SRC=$2; PKG=$3; shift 3
export GOFLAGS=-mod=mod GOPROXY=off GOSUMDB=off
W=/tmp/seedchk-$$
git -C /repo worktree add -q --detach $W HEAD || exit 2
cleanup() { git -C /repo worktree remove --force $W >/dev/null 2>&1; rm -rf $W $W.*.log; }
trap cleanup EXIT
cd $W
DEMO=$(ls $SRC/*_test.go 2>/dev/null | head -1)
cp $DEMO $W/$PKG/zz_demo_test.go
go test -vet=off -count=1 -run 'Demo|Relay|Test' ./$PKG/ >$W.clean.log 2>&1; CLEAN=$?
git apply $SRC/patch.diff || { echo "SEED $P $SRC: patch does not apply"; exit 2; }
go build ./cmd/rdpgw/... ./cmd/auth/ntlm/... ./cmd/auth/database/... ./cmd/auth/config/... ./shared/... >$W.build.log 2>&1; BUILD=$?
go test -vet=off -count=1 ./$PKG/ >$W.mut.log 2>&1; MUT=$?
rm -f $W/$PKG/zz_demo_test.go
go test -vet=off -count=1 ./cmd/rdpgw/... ./cmd/auth/ntlm/... ./cmd/auth/database/... ./shared/... >$W.base.log 2>&1; BASE=$?
echo "SEED $P $(basename $SRC): demo-on-clean-exit=$CLEAN build=$BUILD demo-with-patch-exit=$MUT baseline-with-patch-exit=$BASE"
# the check runs against the scratch worktree (VERIF_REPO), so /repo itself is never touched and
# several seeded changes can be checked side by side
# (VERIF_DIR / VBIN let a regression run use a snapshot of the machinery while /verif is being edited)
cd ${VERIF_DIR:-/verif} && { VERIF_DIR=${VERIF_DIR:-/verif} VERIF_REPO=$W timeout 1800 ${VBIN:-/verif/bin}/vcheck -property $P -noevidence "$@" 2>&1 | grep -E "^VIOLATION|class=|violations=|INFRA|KNOWN" | cut -c1-300 | head -8; }
