#!/bin/sh
# usage: seedall.sh [pattern]  -- re-checks every stored seeded change (seeded/<id>/) against the
# current machinery, four at a time: prints id, validity of the demonstration and DETECTED/MISSED
PAT=${1:-.}
cd /verif
ls seeded | grep -v README | grep -E "$PAT" | xargs -P 4 -I{} sh -c '
  D=/verif/seeded/{}; P=$(echo {} | cut -d- -f1)
  PKG=$(python3 -c "import json;print(json.load(open(\"$D/meta.json\")).get(\"demo_package_dir\",\"\"))")
  OUT=$(/verif/tools/seedcheck.sh $P $D $PKG 2>&1)
  HEAD=$(echo "$OUT" | grep "^SEED" | head -1)
  if echo "$HEAD" | grep -q "demo-on-clean-exit=0 build=0 demo-with-patch-exit=[1-9][0-9]* baseline-with-patch-exit=0"; then OK=valid; else OK="INVALID($(echo $HEAD | cut -d: -f2- | cut -c1-90))"; fi
  if echo "$OUT" | grep -q "^VIOLATION"; then RES=DETECTED; else RES=MISSED; fi
  echo "{} $OK $RES $(echo "$OUT" | grep -o "class=[^ ]*" | sort -u | head -3 | tr "\n" " ")"
'
