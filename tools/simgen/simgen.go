// Package simgen copies the working tree of the repository under test into a scratch
// directory and mechanically redirects the handful of call sites that reach the
// operating system (dial, listen, serve, exit, math/rand seeding) to a small `simhook`
// package that the simulator owns.  Nothing else is changed: no logic is stubbed and no
// yields are inserted.  See DESIGN.md §2.2.
package simgen

import (
	"bytes"
	_ "embed"
	"fmt"
	"go/ast"
	"go/format"
	"go/parser"
	"go/token"
	"io/fs"
	"os"
	"path/filepath"
	"sort"
	"strconv"
	"strings"
)

const modPath = "github.com/bolkedebruin/rdpgw"
const hookPath = modPath + "/simhook"

//go:embed simhook.go.txt
var hookSrc string

//go:embed simhook_race.go.txt
var hookRaceSrc string

//go:embed simhook_norace.go.txt
var hookNoRaceSrc string

// mains maps a directory holding a `package main` to the importable name it gets.
var mains = map[string]string{"cmd/rdpgw": "gwmain"}

// skipDirs are not copied at all.
var skipDirs = map[string]bool{".git": true, "dev": true, "docs": true, ".github": true}

// skipFiles are repository files that cannot be compiled in this sandbox (cgo PAM header
// missing) and are replaced by the harness auth node (DESIGN.md §2.1).
var skipFiles = map[string]bool{"cmd/auth/auth.go": true}

type Result struct {
	Counts map[string]int
	Files  int
}

// Generate copies src (a checkout of the repository) into dst/ and rewrites the seams.
func Generate(src, dst string) (*Result, error) {
	res := &Result{Counts: map[string]int{}}
	err := filepath.WalkDir(src, func(p string, d fs.DirEntry, err error) error {
		if err != nil {
			return err
		}
		rel, _ := filepath.Rel(src, p)
		rel = filepath.ToSlash(rel)
		if d.IsDir() {
			if skipDirs[d.Name()] {
				return filepath.SkipDir
			}
			return os.MkdirAll(filepath.Join(dst, rel), 0o755)
		}
		if !d.Type().IsRegular() {
			return nil
		}
		if strings.HasSuffix(rel, "_test.go") || skipFiles[rel] {
			return nil
		}
		out := filepath.Join(dst, rel)
		if !strings.HasSuffix(rel, ".go") {
			switch filepath.Base(rel) {
			case "go.mod", "go.sum":
			default:
				ext := filepath.Ext(rel)
				if ext != ".rdp" && ext != ".yaml" && ext != ".yml" {
					return nil
				}
			}
			b, err := os.ReadFile(p)
			if err != nil {
				return err
			}
			return os.WriteFile(out, b, 0o644)
		}
		b, err := rewrite(p, filepath.ToSlash(filepath.Dir(rel)), res.Counts)
		if err != nil {
			return fmt.Errorf("%s: %w", rel, err)
		}
		res.Files++
		return os.WriteFile(out, b, 0o644)
	})
	if err != nil {
		return nil, err
	}
	if err := os.MkdirAll(filepath.Join(dst, "simhook"), 0o755); err != nil {
		return nil, err
	}
	if err := os.WriteFile(filepath.Join(dst, "simhook", "simhook.go"), []byte(hookSrc), 0o644); err != nil {
		return nil, err
	}
	if err := os.WriteFile(filepath.Join(dst, "simhook", "simhook_race.go"), []byte(hookRaceSrc), 0o644); err != nil {
		return nil, err
	}
	if err := os.WriteFile(filepath.Join(dst, "simhook", "simhook_norace.go"), []byte(hookNoRaceSrc), 0o644); err != nil {
		return nil, err
	}
	if err := genHelpers(dst, res.Counts); err != nil {
		return nil, err
	}
	// patterns that must exist, otherwise the simulation would silently talk to the real OS
	for _, must := range []string{"net.DialTimeout", "net.Dial", "ListenAndServe", "ListenAndServeTLS", "log.Fatal*", "main"} {
		if res.Counts[must] == 0 {
			return res, fmt.Errorf("simgen: required pattern %q not found in %s", must, src)
		}
	}
	return res, nil
}

func (r *Result) String() string {
	var ks []string
	for k := range r.Counts {
		ks = append(ks, k)
	}
	sort.Strings(ks)
	var sb strings.Builder
	for _, k := range ks {
		fmt.Fprintf(&sb, "%s=%d ", k, r.Counts[k])
	}
	return strings.TrimSpace(sb.String())
}

func importName(is *ast.ImportSpec) (name, path string) {
	path, _ = strconv.Unquote(is.Path.Value)
	name = filepath.Base(path)
	// well-known imports whose package name differs from the path base
	switch path {
	case "github.com/patrickmn/go-cache":
		name = "cache"
	case "github.com/go-jose/go-jose/v4":
		name = "jose"
	case "github.com/thought-machine/go-flags":
		name = "flags"
	}
	if strings.HasPrefix(name, "v") && len(name) > 1 && name[1] >= '0' && name[1] <= '9' {
		name = filepath.Base(filepath.Dir(path))
	}
	if is.Name != nil {
		name = is.Name.Name
	}
	return
}

func rewrite(path, relDir string, counts map[string]int) ([]byte, error) {
	fset := token.NewFileSet()
	f, err := parser.ParseFile(fset, path, nil, parser.ParseComments)
	if err != nil {
		return nil, err
	}
	imp := map[string]string{}
	for _, is := range f.Imports {
		n, p := importName(is)
		imp[n] = p
	}
	used := false
	removedUse := map[string]bool{} // import paths from which we removed a use
	pkgSel := func(e ast.Expr) (pkg, name string, ok bool) {
		se, ok1 := e.(*ast.SelectorExpr)
		if !ok1 {
			return
		}
		id, ok2 := se.X.(*ast.Ident)
		if !ok2 || id.Obj != nil { // Obj != nil: a local object, not a package name
			return
		}
		p, ok3 := imp[id.Name]
		if !ok3 {
			return
		}
		return p, se.Sel.Name, true
	}
	hook := func(name, from string) ast.Expr {
		used = true
		removedUse[from] = true
		return &ast.SelectorExpr{X: ast.NewIdent("simhook"), Sel: ast.NewIdent(name)}
	}
	if newName, ok := mains[relDir]; ok && f.Name.Name == "main" {
		f.Name.Name = newName
		for _, d := range f.Decls {
			if fd, ok := d.(*ast.FuncDecl); ok && fd.Recv == nil && fd.Name.Name == "main" {
				fd.Name.Name = "Main"
				counts["main"]++
			}
		}
	}
	// sync.Mutex / sync.RWMutex in the repository's own code -> durably blocking variants
	ast.Inspect(f, func(n ast.Node) bool {
		se, ok := n.(*ast.SelectorExpr)
		if !ok {
			return true
		}
		if p, name, ok := pkgSel(se); ok && p == "sync" && (name == "Mutex" || name == "RWMutex" || name == "Pool" || name == "Map" || name == "Once") {
			se.X = ast.NewIdent("simhook")
			used = true
			removedUse["sync"] = true
			counts["sync."+name]++
		}
		return true
	})
	ast.Inspect(f, func(n ast.Node) bool {
		ce, ok := n.(*ast.CallExpr)
		if !ok {
			return true
		}
		if p, name, ok := pkgSel(ce.Fun); ok {
			switch {
			case p == "net" && (name == "DialTimeout" || name == "Dial" || name == "Listen"):
				ce.Fun = hook(name, p)
				counts["net."+name]++
			case p == "log" && strings.HasPrefix(name, "Fatal"):
				ce.Fun = hook(name, p)
				counts["log.Fatal*"]++
			case p == "os" && name == "Exit":
				ce.Fun = hook("Exit", p)
				counts["os.Exit"]++
			case p == "net/http" && name == "ListenAndServe":
				ce.Fun = hook("HTTPListenAndServe", p)
				counts["http.ListenAndServe"]++
			case p == "math/rand" && name == "NewSource":
				ce.Fun = hook("RandSource", p)
				counts["rand.NewSource"]++
			}
			return true
		}
		if se, ok := ce.Fun.(*ast.SelectorExpr); ok {
			if (se.Sel.Name == "ListenAndServe" && len(ce.Args) == 0) || (se.Sel.Name == "ListenAndServeTLS" && len(ce.Args) == 2) {
				counts[se.Sel.Name]++
				recv := se.X
				used = true
				ce.Fun = &ast.SelectorExpr{X: ast.NewIdent("simhook"), Sel: ast.NewIdent("Serve" + strings.TrimPrefix(se.Sel.Name, "ListenAndServe"))}
				ce.Args = append([]ast.Expr{&ast.UnaryExpr{Op: token.AND, X: recv}}, ce.Args...)
			}
		}
		return true
	})
	resetSrc := resetStmts(fset, f, path, counts)
	if resetSrc != "" {
		used = true
	}
	if used {
		added := false
		for _, d := range f.Decls {
			if gd, ok := d.(*ast.GenDecl); ok && gd.Tok == token.IMPORT {
				gd.Specs = append(gd.Specs, &ast.ImportSpec{Path: &ast.BasicLit{Kind: token.STRING, Value: strconv.Quote(hookPath)}})
				added = true
				break
			}
		}
		if !added {
			return nil, fmt.Errorf("no import declaration to extend")
		}
	}
	var buf bytes.Buffer
	if err := format.Node(&buf, fset, f); err != nil {
		return nil, err
	}
	if !used {
		return buf.Bytes(), nil
	}
	if resetSrc != "" {
		buf.WriteString("\n// simgen: package-level state goes back to its initial value between simulated runs\n// (one run stands for one fresh process)\nfunc init() {\n\tsimhook.RegisterReset(func() {\n" + resetSrc + "\t})\n}\n")
	}
	return pruneImports(buf.Bytes(), removedUse)
}

// initAssigned lists, per directory, the package-level names that an init() function of the
// package assigns or takes the address of: those are not touched by the generated reset.
var initAssignedCache = map[string]map[string]bool{}

func initAssigned(dir string) map[string]bool {
	if m, ok := initAssignedCache[dir]; ok {
		return m
	}
	m := map[string]bool{}
	initAssignedCache[dir] = m
	ents, _ := os.ReadDir(dir)
	fset := token.NewFileSet()
	for _, e := range ents {
		if e.IsDir() || !strings.HasSuffix(e.Name(), ".go") || strings.HasSuffix(e.Name(), "_test.go") {
			continue
		}
		f, err := parser.ParseFile(fset, filepath.Join(dir, e.Name()), nil, 0)
		if err != nil {
			continue
		}
		for _, d := range f.Decls {
			fd, ok := d.(*ast.FuncDecl)
			if !ok || fd.Recv != nil || fd.Name.Name != "init" || fd.Body == nil {
				continue
			}
			ast.Inspect(fd.Body, func(n ast.Node) bool {
				switch x := n.(type) {
				case *ast.AssignStmt:
					for _, l := range x.Lhs {
						if id, ok := l.(*ast.Ident); ok {
							m[id.Name] = true
						}
					}
				case *ast.UnaryExpr:
					if id, ok := x.X.(*ast.Ident); ok && x.Op == token.AND {
						m[id.Name] = true
					}
				}
				return true
			})
		}
	}
	return m
}

// localFuncs maps the names of a directory's top-level functions to their source text.
var localFuncsCache = map[string]map[string]string{}

func localFuncs(dir string) map[string]string {
	if m, ok := localFuncsCache[dir]; ok {
		return m
	}
	m := map[string]string{}
	localFuncsCache[dir] = m
	ents, _ := os.ReadDir(dir)
	fset := token.NewFileSet()
	for _, e := range ents {
		if e.IsDir() || !strings.HasSuffix(e.Name(), ".go") || strings.HasSuffix(e.Name(), "_test.go") {
			continue
		}
		f, err := parser.ParseFile(fset, filepath.Join(dir, e.Name()), nil, 0)
		if err != nil {
			continue
		}
		for _, d := range f.Decls {
			if fd, ok := d.(*ast.FuncDecl); ok && fd.Recv == nil && fd.Body != nil {
				var b bytes.Buffer
				format.Node(&b, fset, fd)
				m[fd.Name.Name] = b.String()
			}
		}
	}
	return m
}

// resetStmts returns Go statements that put the file's package-level variables back to their
// initial values, for the kinds of variable where that is plainly what a fresh process would
// hold: constructor calls of caches/maps, composite literals, literals, and zero values.
// Generated files, metrics collectors, locks, embedded files and anything an init() function
// sets up are left alone.
func resetStmts(fset *token.FileSet, f *ast.File, path string, counts map[string]int) string {
	if strings.HasSuffix(path, ".pb.go") {
		return ""
	}
	for _, cg := range f.Comments {
		if cg.Pos() < f.Package && strings.Contains(cg.Text(), "Code generated") {
			return ""
		}
	}
	skip := initAssigned(filepath.Dir(path))
	show := func(n ast.Node) string {
		var b bytes.Buffer
		format.Node(&b, fset, n)
		return b.String()
	}
	allowedInit := func(e ast.Expr) bool {
		switch x := e.(type) {
		case *ast.BasicLit:
			return true
		case *ast.Ident:
			return x.Name == "nil" || x.Name == "true" || x.Name == "false"
		case *ast.CompositeLit:
			return true
		case *ast.UnaryExpr:
			_, ok := x.X.(*ast.CompositeLit)
			return ok && x.Op == token.AND
		case *ast.CallExpr:
			if id, ok := x.Fun.(*ast.Ident); ok && (id.Name == "make" || id.Name == "new") {
				return true
			}
			// a constructor of the package itself, called without arguments (what a fresh process
			// would call at start-up), unless it registers something process-wide
			if id, ok := x.Fun.(*ast.Ident); ok && len(x.Args) == 0 {
				if src, ok := localFuncs(filepath.Dir(path))[id.Name]; ok && !strings.Contains(src, "prometheus") && !strings.Contains(src, "Register") && !strings.Contains(src, "flag.") && !strings.Contains(src, "os.") {
					return true
				}
			}
			if se, ok := x.Fun.(*ast.SelectorExpr); ok {
				if id, ok := se.X.(*ast.Ident); ok && id.Name == "cache" && se.Sel.Name == "New" {
					return true
				}
			}
		}
		return false
	}
	// method calls that an init() function of this very file makes on a package-level variable
	// (`c.OnEvicted(f)`): a variable that is put back is configured again the same way
	setup := map[string][]string{}
	for _, d := range f.Decls {
		fd, ok := d.(*ast.FuncDecl)
		if !ok || fd.Recv != nil || fd.Name.Name != "init" || fd.Body == nil {
			continue
		}
		for _, st := range fd.Body.List {
			es, ok := st.(*ast.ExprStmt)
			if !ok {
				continue
			}
			ce, ok := es.X.(*ast.CallExpr)
			if !ok {
				continue
			}
			se, ok := ce.Fun.(*ast.SelectorExpr)
			if !ok {
				continue
			}
			if id, ok := se.X.(*ast.Ident); ok {
				src := show(st)
				if !strings.Contains(src, "prometheus") && !strings.Contains(src, "Register") {
					setup[id.Name] = append(setup[id.Name], src)
				}
			}
		}
	}
	var sb strings.Builder
	for _, d := range f.Decls {
		gd, ok := d.(*ast.GenDecl)
		if !ok || gd.Tok != token.VAR {
			continue
		}
		if gd.Doc != nil && strings.Contains(gd.Doc.Text()+show(gd.Doc), "go:embed") {
			continue
		}
		for _, sp := range gd.Specs {
			vs := sp.(*ast.ValueSpec)
			if vs.Doc != nil && strings.Contains(show(vs.Doc), "go:embed") {
				continue
			}
			typ := ""
			if vs.Type != nil {
				typ = show(vs.Type)
			}
			if strings.Contains(typ, "Mutex") || strings.Contains(typ, "prometheus") || strings.Contains(typ, "chan ") {
				continue
			}
			for i, n := range vs.Names {
				if n.Name == "_" || skip[n.Name] {
					continue
				}
				switch {
				case len(vs.Values) == len(vs.Names):
					if !allowedInit(vs.Values[i]) {
						continue
					}
					v := show(vs.Values[i])
					if strings.Contains(v, "Mutex") || strings.Contains(v, "prometheus") {
						continue
					}
					if typ != "" {
						fmt.Fprintf(&sb, "\t\t{\n\t\t\tvar z %s = %s\n\t\t\t%s = z\n\t\t}\n", typ, v, n.Name)
					} else {
						fmt.Fprintf(&sb, "\t\t%s = %s\n", n.Name, v)
					}
					for _, st := range setup[n.Name] {
						fmt.Fprintf(&sb, "\t\t%s\n", st)
						counts["reset.setup"]++
					}
					counts["reset.var"]++
				case len(vs.Values) == 0 && typ != "":
					fmt.Fprintf(&sb, "\t\t{\n\t\t\tvar z %s\n\t\t\t%s = z\n\t\t}\n", typ, n.Name)
					counts["reset.zero"]++
				}
			}
		}
	}
	return sb.String()
}

// pruneImports drops only imports that simgen itself may have made unused.
func pruneImports(src []byte, candidates map[string]bool) ([]byte, error) {
	fset := token.NewFileSet()
	f, err := parser.ParseFile(fset, "", src, parser.ParseComments)
	if err != nil {
		return nil, err
	}
	usedNames := map[string]bool{}
	ast.Inspect(f, func(n ast.Node) bool {
		if se, ok := n.(*ast.SelectorExpr); ok {
			if id, ok := se.X.(*ast.Ident); ok {
				usedNames[id.Name] = true
			}
		}
		return true
	})
	for _, d := range f.Decls {
		gd, ok := d.(*ast.GenDecl)
		if !ok || gd.Tok != token.IMPORT {
			continue
		}
		var keep []ast.Spec
		for _, s := range gd.Specs {
			is := s.(*ast.ImportSpec)
			name, ip := importName(is)
			if candidates[ip] && name != "_" && name != "." && !usedNames[name] {
				continue
			}
			keep = append(keep, s)
		}
		gd.Specs = keep
	}
	var buf bytes.Buffer
	if err := format.Node(&buf, fset, f); err != nil {
		return nil, err
	}
	return buf.Bytes(), nil
}

// genHelpers emits zz_simreset.go files: per-package helpers that reset package-level
// state between runs of one worker process (DESIGN.md §3 rule 6) and expose read-only
// observations (registry size) without depending on unexported names from the harness.
func genHelpers(dst string, counts map[string]int) error {
	type pkgInfo struct {
		dir    string
		name   string
		caches []string
		hasMap map[string]bool
		vars   map[string]bool
		types  map[string]bool
	}
	scan := func(rel string) (*pkgInfo, error) {
		dir := filepath.Join(dst, rel)
		ents, err := os.ReadDir(dir)
		if err != nil {
			return nil, nil // package vanished: nothing to reset
		}
		pi := &pkgInfo{dir: dir, hasMap: map[string]bool{}, vars: map[string]bool{}, types: map[string]bool{}}
		fset := token.NewFileSet()
		for _, e := range ents {
			if e.IsDir() || !strings.HasSuffix(e.Name(), ".go") || strings.HasPrefix(e.Name(), "zz_sim") {
				continue
			}
			f, err := parser.ParseFile(fset, filepath.Join(dir, e.Name()), nil, 0)
			if err != nil {
				return nil, err
			}
			pi.name = f.Name.Name
			for _, d := range f.Decls {
				gd, ok := d.(*ast.GenDecl)
				if !ok {
					continue
				}
				for _, s := range gd.Specs {
					switch sp := s.(type) {
					case *ast.TypeSpec:
						pi.types[sp.Name.Name] = true
					case *ast.ValueSpec:
						if gd.Tok != token.VAR {
							continue
						}
						for i, n := range sp.Names {
							pi.vars[n.Name] = true
							if _, ok := sp.Type.(*ast.MapType); ok {
								pi.hasMap[n.Name] = true
							}
							if i < len(sp.Values) {
								if ce, ok := sp.Values[i].(*ast.CallExpr); ok {
									if se, ok := ce.Fun.(*ast.SelectorExpr); ok {
										if id, ok := se.X.(*ast.Ident); ok && id.Name == "cache" && se.Sel.Name == "New" {
											pi.caches = append(pi.caches, n.Name)
										}
									}
								}
							}
						}
					}
				}
			}
		}
		return pi, nil
	}

	// protocol: flush package-level caches, clear the registry
	if pi, err := scan("cmd/rdpgw/protocol"); err != nil {
		return err
	} else if pi != nil {
		var b strings.Builder
		fmt.Fprintf(&b, "// Code generated by simgen. DO NOT EDIT.\npackage %s\n\n", pi.name)
		b.WriteString("// SimReset clears package-level state between simulated runs.\nfunc SimReset() {\n")
		for _, c := range pi.caches {
			fmt.Fprintf(&b, "\t%s.Flush()\n", c)
			counts["reset.cache"]++
		}
		if pi.hasMap["Connections"] {
			b.WriteString("\tConnections = nil\n")
			counts["reset.registry"]++
		}
		b.WriteString("}\n\n// SimRegistrySize reports the number of registered tunnels, or -1 if unknown.\nfunc SimRegistrySize() int {\n")
		if pi.hasMap["Connections"] {
			b.WriteString("\treturn len(Connections)\n")
		} else {
			b.WriteString("\treturn -1\n")
		}
		b.WriteString("}\n\n// SimCacheItems reports the number of entries in package-level caches, or -1.\nfunc SimCacheItems() int {\n")
		if len(pi.caches) > 0 {
			b.WriteString("\tn := 0\n")
			for _, c := range pi.caches {
				fmt.Fprintf(&b, "\tn += %s.ItemCount()\n", c)
			}
			b.WriteString("\treturn n\n")
		} else {
			b.WriteString("\treturn -1\n")
		}
		b.WriteString("}\n")
		if err := os.WriteFile(filepath.Join(pi.dir, "zz_simreset.go"), []byte(b.String()), 0o644); err != nil {
			return err
		}
	}
	for _, rel := range []string{"cmd/rdpgw/config", "cmd/auth/config"} {
		pi, err := scan(rel)
		if err != nil {
			return err
		}
		if pi == nil {
			continue
		}
		var b strings.Builder
		fmt.Fprintf(&b, "// Code generated by simgen. DO NOT EDIT.\npackage %s\n\nfunc SimReset() {\n", pi.name)
		if pi.vars["Conf"] && pi.types["Configuration"] {
			b.WriteString("\tConf = Configuration{}\n")
			counts["reset.conf"]++
		}
		b.WriteString("}\n")
		if err := os.WriteFile(filepath.Join(pi.dir, "zz_simreset.go"), []byte(b.String()), 0o644); err != nil {
			return err
		}
	}
	// gwmain: reset the package-level conf and opts of the renamed main package
	if pi, err := scan("cmd/rdpgw"); err != nil {
		return err
	} else if pi != nil {
		var b strings.Builder
		fmt.Fprintf(&b, "// Code generated by simgen. DO NOT EDIT.\npackage %s\n\nfunc SimReset() {\n", pi.name)
		if pi.vars["conf"] {
			b.WriteString("\tconf = config.Configuration{}\n")
		}
		b.WriteString("}\n")
		src := b.String()
		if pi.vars["conf"] {
			src = strings.Replace(src, "func SimReset", "import \""+modPath+"/cmd/rdpgw/config\"\n\nfunc SimReset", 1)
		}
		if err := os.WriteFile(filepath.Join(pi.dir, "zz_simreset.go"), []byte(src), 0o644); err != nil {
			return err
		}
	}
	return nil
}
