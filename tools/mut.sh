#!/bin/sh
# usage: mut.sh <property> <file> <sed-expr> [runs]   -- apply a one-line mutant to /repo, run the check, revert
P=$1; F=$2; E=$3; R=${4:-0}
cd /repo && sed -i "$E" "$F" && git diff --stat | tail -1
if [ "$R" = 0 ]; then timeout 900 /verif/bin/vcheck -property $P 2>&1 | grep -E "^VIOLATION|class=|violations=|INFRA|KNOWN" | head -6
else timeout 900 /verif/bin/vcheck -property $P -runs $R 2>&1 | grep -E "^VIOLATION|class=|violations=|INFRA|KNOWN" | head -6; fi
git -C /repo checkout -- . ; git -C /repo status --short | head -2
